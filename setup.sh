#!/bin/bash
# Build the overlay venv (python 3.12 of /venv + z3/cvc5/crosshair from the offline wheelhouse).
set -e
cd "$(dirname "$0")"
if [ -x .venv/bin/python ] && .venv/bin/python -c "import z3, crosshair, numpy" 2>/dev/null; then exit 0; fi
rm -rf .venv
/venv/bin/python -m venv .venv
SP=$(.venv/bin/python -c "import sysconfig; print(sysconfig.get_paths()['purelib'])")
echo "import site; site.addsitedir('/venv/lib/python3.12/site-packages')" > "$SP/_base.pth"
PIP_NO_INDEX=1 .venv/bin/python -m pip install -q --no-index --find-links /opt/veriftools/wheels z3-solver crosshair-tool cvc5 >/dev/null
.venv/bin/python -c "import z3, crosshair, numpy; print('venv ok', z3.get_version_string())"
