"""Model file system and the library stand-ins that talk to it (pathlib, open, os, gzip, zlib,
tempfile, uuid, atexit).  File contents are SBytes (symbolic bytes, concrete length) or GzBlob
(the image written by the gzip writer: an uninterpreted invertible encoding of its payload)."""
import builtins
import errno as _errno
import gzip as real_gzip
import os as real_os
import pathlib as real_pathlib
import posixpath
import sys
import types
import zlib as real_zlib

import z3

from .core import OutsideModel, cur
from .sbytes import SBytes, SByteArray
from .values import SInt


class Crash(BaseException):
    """Simulated process interruption (not catchable by `except Exception`)."""


class GzBlob:
    """Content of a file produced by gzip.open(..., 'wb'): gunzip(GzBlob(p)) == p."""
    def __init__(self, payload, complete=True):
        self.payload = payload if isinstance(payload, SBytes) else SBytes(payload)
        self.complete = complete

    def __len__(self):
        # the compressed size is unknown; only used for truncation points
        return len(self.payload) + 18

    def truncated(self, n):
        return GzBlob(self.payload[:max(0, n - 10)], complete=(n >= len(self)))

    def __eq__(self, o):
        if not isinstance(o, GzBlob) or self.complete != o.complete:
            return False
        return self.payload == o.payload

    __hash__ = None

    def __repr__(self):
        return f"GzBlob({self.payload!r}, complete={self.complete})"


def _norm(p):
    p = str(p)
    if not p.startswith("/"):
        p = "/cwd/" + p
    return posixpath.normpath(p)


class ModelFS:
    def __init__(self):
        self.files = {}
        self.dirs = {"/", "/cwd", "/tmp"}
        self.calls = 0              # every file-system call
        self.log = []
        self.fail_at = None         # (call index, errno) -> OSError
        self.crash_at = None        # call index -> Crash
        self.open_writers = []
        self.tmp_counter = 0

    # ---- fault plan
    def _tick(self, op, path):
        i = self.calls
        self.calls += 1
        self.log.append((op, str(path)))
        if self.crash_at is not None and i == self.crash_at:
            raise Crash(f"interrupted before {op} {path}")
        if self.fail_at is not None and i == self.fail_at[0]:
            e = self.fail_at[1]
            raise OSError(e, real_os.strerror(e), str(path))

    def snapshot(self):
        return dict(self.files), set(self.dirs)

    # ---- queries
    # pathlib's is_file/is_dir/exists swallow these errors and answer False
    _IGNORED = (_errno.ENOENT, _errno.ENOTDIR, _errno.EBADF, _errno.ELOOP)

    def _probe(self, op, p):
        try:
            self._tick(op, p)
        except OSError as e:
            if e.errno in self._IGNORED:
                return False
            raise
        return True

    def is_file(self, p):
        return self._probe("is_file", p) and _norm(p) in self.files

    def is_dir(self, p):
        return self._probe("is_dir", p) and _norm(p) in self.dirs

    def exists(self, p):
        if not self._probe("exists", p):
            return False
        p = _norm(p)
        return p in self.files or p in self.dirs

    def mkdir(self, p, parents=False, exist_ok=False):
        self._tick("mkdir", p)
        p = _norm(p)
        if p in self.files:
            raise FileExistsError(_errno.EEXIST, "File exists", p)
        if p in self.dirs:
            if not exist_ok:
                raise FileExistsError(_errno.EEXIST, "File exists", p)
            return
        parent = posixpath.dirname(p)
        if parent not in self.dirs:
            if parent in self.files:
                raise NotADirectoryError(_errno.ENOTDIR, "Not a directory", p)
            if not parents:
                raise FileNotFoundError(_errno.ENOENT, "No such file or directory", p)
            self.mkdir_p(parent)
        self.dirs.add(p)

    def mkdir_p(self, p):
        p = _norm(p)
        parts = [x for x in p.split("/") if x]
        cur_ = ""
        for x in parts:
            cur_ += "/" + x
            if cur_ in self.files:
                raise NotADirectoryError(_errno.ENOTDIR, "Not a directory", cur_)
            self.dirs.add(cur_)

    def unlink(self, p):
        self._tick("unlink", p)
        p = _norm(p)
        if p not in self.files:
            raise FileNotFoundError(_errno.ENOENT, "No such file or directory", p)
        del self.files[p]

    def iterdir(self, p):
        self._tick("iterdir", p)
        p = _norm(p)
        if p not in self.dirs:
            raise FileNotFoundError(_errno.ENOENT, "No such file or directory", p)
        pre = p.rstrip("/") + "/"
        names = set()
        for q in list(self.files) + list(self.dirs):
            if q.startswith(pre) and q != p:
                names.add(q[len(pre):].split("/")[0])
        # the order of a directory listing is unspecified: the model hands the names out in reverse lexicographic order,
        # so code that relies on a sorted listing without sorting is exposed
        return sorted(names, reverse=True)

    def open(self, p, mode="r", buffering=-1, **kw):
        self._tick("open:" + mode, p)
        if "b" not in mode:
            raise OutsideModel(f"text-mode open({mode!r}) on the model file system")
        p = _norm(p)
        parent = posixpath.dirname(p)
        if p in self.dirs:
            raise IsADirectoryError(_errno.EISDIR, "Is a directory", p)
        kind = mode.replace("b", "").replace("+", "")
        if kind == "r":
            if p not in self.files:
                raise FileNotFoundError(_errno.ENOENT, "No such file or directory", p)
            return ModelFile(self, p, "r")
        if parent not in self.dirs:
            raise FileNotFoundError(_errno.ENOENT, "No such file or directory", p)
        if kind == "x":
            if p in self.files:
                raise FileExistsError(_errno.EEXIST, "File exists", p)
            self.files[p] = SBytes()
        elif kind == "w":
            self.files[p] = SBytes()
        elif kind == "a":
            self.files.setdefault(p, SBytes())
        else:
            raise OutsideModel(f"open mode {mode}")
        f = ModelFile(self, p, "a" if kind == "a" else "w")
        f._at_open = self.files.get(p)
        f.unbuffered = (buffering == 0)
        self.open_writers.append(f)
        return f

    def collect_unclosed(self):
        """What CPython does with a file object that is dropped without close(): it is closed by the garbage collector
        and an error raised there is swallowed.  Small files live in the object's buffer until then, so a failing
        deferred close loses everything that writer wrote.  Returns the (path, exception) pairs of swallowed failures."""
        swallowed = []
        for f in list(self.open_writers):
            if f.closed:
                continue
            try:
                f.close()
            except OSError as exc:
                swallowed.append((f.path, exc))
                start = getattr(f, "_at_open", None)
                if start is None:
                    self.files.pop(f.path, None)
                else:
                    self.files[f.path] = start
        self.open_writers = []
        return swallowed

    def crash_cleanup(self, ctx):
        """After a Crash: what an open writer had handed to the OS may be only partially on disk:
        any prefix (symbolic length, case split) of the written content survives."""
        for f in self.open_writers:
            if f.closed or f.path not in self.files:
                continue
            data = self.files[f.path]
            n = len(data)
            if n == 0:
                continue
            k = SInt.var(ctx.fresh_name("keep"), "int")
            ctx.assume(z3.And(k.e >= 0, k.e <= n))
            keep = k.__index__()
            self.files[f.path] = data.truncated(keep) if isinstance(data, GzBlob) else data[:keep]
        self.open_writers = []


class ModelFile:
    def __init__(self, fs, path, mode):
        self.fs, self.path, self.mode = fs, path, mode
        self.pos = len(fs.files[path]) if mode == "a" else 0
        self.closed = False

    def __enter__(self):
        return self

    def __exit__(self, *a):
        self.close()
        return False

    def close(self):
        if not self.closed:
            self.closed = True
            if self in self.fs.open_writers:
                self.fs.open_writers.remove(self)
            self.fs._tick("close", self.path)

    def _data(self):
        d = self.fs.files[self.path]
        if isinstance(d, GzBlob):
            raise OutsideModel("plain read/write of a gzip image")
        return d

    def read(self, n=-1):
        self.fs._tick("read", self.path)
        d = self.fs.files[self.path]
        if isinstance(d, GzBlob):
            if self.pos == 0 and (n is None or n < 0):
                return d          # opaque compressed image handed out whole (e.g. served over HTTP)
            raise OutsideModel("partial plain read of a gzip image")
        if isinstance(n, SInt):
            L = len(d)
            ctx = cur()
            if ctx.decide((n > L).e):
                n = L
            elif ctx.decide((n < 0).e):
                n = -1
            else:
                n = n.__index__()
        if n is None or n < 0:
            out = d[self.pos:]
        else:
            out = d[self.pos:self.pos + n]
        self.pos += len(out)
        if isinstance(out, SBytes) and out.is_concrete():
            return out.concrete()
        return SBytes(out)

    unbuffered = False

    def write(self, b):
        short = False
        try:
            self.fs._tick("write", self.path)
        except OSError as exc:
            # a raw (unbuffered) file hands the request to the kernel as is: when the space runs out in the middle of it,
            # write(2) stores what fits and *returns the short count*; only the next call fails.  Buffered files
            # retry the remainder themselves and so surface the error.
            if not (self.unbuffered and exc.errno in (_errno.ENOSPC, _errno.EDQUOT, _errno.EFBIG) and len(b) > 1):
                raise
            short = True
        if self.mode == "r":
            raise OSError(_errno.EBADF, "not writable")
        if isinstance(b, GzBlob):
            raise OutsideModel("write of a gzip image")
        nb = SBytes(b) if not isinstance(b, SBytes) else b
        if short:
            nb = nb[:len(nb) // 2]
        d = self._data()
        if self.mode == "a":
            self.pos = len(d)
        bs = list(d.bs)
        if self.pos > len(bs):
            bs += [0] * (self.pos - len(bs))
        bs[self.pos:self.pos + len(nb)] = nb.bs
        self.fs.files[self.path] = SBytes(bs)
        self.pos += len(nb)
        return len(nb)

    def seek(self, off, whence=0):
        self.fs._tick("seek", self.path)
        if isinstance(off, SInt):
            L = len(self.fs.files[self.path])
            ctx = cur()
            if ctx.decide((off > L).e):
                off = L + 1     # reading beyond the end yields nothing, wherever
            elif ctx.decide((off < 0).e):
                raise OSError(_errno.EINVAL, "Invalid argument")
            else:
                off = off.__index__()
        if whence == 0:
            if off < 0:
                raise OSError(_errno.EINVAL, "Invalid argument")
            self.pos = off
        elif whence == 2:
            self.pos = len(self.fs.files[self.path]) + off
        else:
            self.pos += off
        return self.pos

    def tell(self):
        return self.pos

    def fileno(self):
        return self          # the model's os.* functions accept the file object as its descriptor

    def flush(self):
        pass

    def truncate(self, size=None):
        self.fs._tick("truncate", self.path)
        size = self.pos if size is None else size
        d = self.fs.files[self.path]
        self.fs.files[self.path] = SBytes(list(d.bs)[:size] + [0] * max(0, size - len(d)))
        return size


class GzipModelFile:
    """gzip.open(path, mode) on the model file system."""
    def __init__(self, fs, path, mode, compresslevel=9):
        self.fs, self.path = fs, _norm(path)
        kind = mode.replace("b", "")
        fs._tick("gzopen:" + mode, path)
        self.kind = kind
        self.closed = False
        if kind == "r":
            if self.path not in fs.files:
                raise FileNotFoundError(_errno.ENOENT, "No such file or directory", self.path)
        else:
            parent = posixpath.dirname(self.path)
            if parent not in fs.dirs:
                raise FileNotFoundError(_errno.ENOENT, "No such file or directory", self.path)
            if kind == "x" and self.path in fs.files:
                raise FileExistsError(_errno.EEXIST, "File exists", self.path)
            fs.files[self.path] = GzBlob(SBytes(), complete=False)     # header written, stream not finished
            fs.open_writers.append(self)
            self.buf = SBytes()

    def __enter__(self):
        return self

    def __exit__(self, *a):
        self.close()
        return False

    def write(self, b):
        self.fs._tick("gzwrite", self.path)
        self.buf = self.buf + (b if isinstance(b, SBytes) else SBytes(b))
        self.fs.files[self.path] = GzBlob(self.buf, complete=False)
        return len(b)

    def read(self, n=-1):
        self.fs._tick("gzread", self.path)
        d = self.fs.files[self.path]
        if not isinstance(d, GzBlob):
            raise real_gzip.BadGzipFile("Not a gzipped file")
        if not d.complete:
            raise EOFError("Compressed file ended before the end-of-stream marker was reached")
        p = d.payload
        return p.concrete() if p.is_concrete() else SBytes(p)

    def close(self):
        if self.closed:
            return
        self.closed = True
        if self.kind != "r":
            self.fs._tick("gzclose", self.path)
            self.fs.files[self.path] = GzBlob(self.buf, complete=True)
            if self in self.fs.open_writers:
                self.fs.open_writers.remove(self)


# ------------------------------------------------------------------ stand-in modules

def make_path_class(fs):
    class ModelPath(real_pathlib.PurePosixPath):
        _fs = fs

        def is_file(self):
            return self._fs.is_file(self)

        def is_dir(self):
            return self._fs.is_dir(self)

        def exists(self):
            return self._fs.exists(self)

        def mkdir(self, mode=0o777, parents=False, exist_ok=False):
            return self._fs.mkdir(self, parents=parents, exist_ok=exist_ok)

        def open(self, mode="r", *a, **kw):
            return self._fs.open(self, mode)

        def unlink(self, missing_ok=False):
            try:
                return self._fs.unlink(self)
            except FileNotFoundError:
                if not missing_ok:
                    raise

        def iterdir(self):
            return iter([self / n for n in self._fs.iterdir(self)])

        def read_bytes(self):
            with self.open("rb") as f:
                return f.read()

        def write_bytes(self, b):
            with self.open("wb") as f:
                return f.write(b)

        def resolve(self):
            return type(self)(_norm(self))

    return ModelPath


class Env:
    """One model file system plus all stand-in modules bound to it."""
    def __init__(self):
        self.fs = ModelFS()
        fs = self.fs
        self.Path = make_path_class(fs)
        self.atexit_callbacks = []

        pl = types.SimpleNamespace(Path=self.Path, PurePath=real_pathlib.PurePath,
                                   PurePosixPath=real_pathlib.PurePosixPath)
        self.pathlib = pl

        def _open(p, mode="r", *a, **kw):
            if "b" not in mode and mode.replace("t", "") == "r":
                # text-mode read of a concrete file (JSON / CSV inputs of the commands)
                import io
                with fs.open(p, "rb") as f:
                    data = f.read()
                if isinstance(data, SBytes):
                    data = data.concrete() if data.is_concrete() else None
                if data is None:
                    raise OutsideModel("text-mode read of a file with symbolic contents")
                return io.StringIO(data.decode("utf-8"), newline=kw.get("newline"))
            buffering = a[0] if a else kw.get("buffering", -1)
            return fs.open(p, mode, buffering=buffering)
        self.open = _open

        osp = types.SimpleNamespace(**{k: getattr(real_os.path, k) for k in ("join", "basename", "dirname", "splitext", "normpath", "sep")})
        def _swallow(f):
            # os.path.isfile/isdir/exists answer False on *any* OSError (unlike pathlib, which re-raises most)
            def g(p):
                try:
                    fs._tick(f, p)
                except OSError:
                    return False
                q = _norm(p)
                return {"is_file": q in fs.files, "is_dir": q in fs.dirs, "exists": q in fs.files or q in fs.dirs}[f]
            return g
        osp.isfile = _swallow("is_file")
        osp.isdir = _swallow("is_dir")
        osp.exists = _swallow("exists")

        def makedirs(p, mode=0o777, exist_ok=False):
            fs._tick("makedirs", p)
            q = _norm(p)
            if q in fs.dirs:
                if not exist_ok:
                    raise FileExistsError(_errno.EEXIST, "File exists", q)
                return
            if q in fs.files:
                raise FileExistsError(_errno.EEXIST, "File exists", q)
            fs.mkdir_p(q)
        def posix_fallocate(fd, offset, length):
            f = fd if isinstance(fd, ModelFile) else None
            if f is None:
                raise OSError(_errno.EBADF, "Bad file descriptor")
            fs._tick("fallocate", f.path)
            d = fs.files[f.path]
            if len(d) < offset + length:
                fs.files[f.path] = SBytes(list(d.bs) + [0] * (offset + length - len(d)))

        def ftruncate(fd, length):
            f = fd if isinstance(fd, ModelFile) else None
            if f is None:
                raise OSError(_errno.EBADF, "Bad file descriptor")
            fs._tick("ftruncate", f.path)
            d = fs.files[f.path]
            fs.files[f.path] = SBytes(list(d.bs)[:length] + [0] * max(0, length - len(d)))

        def remove(p):
            fs.unlink(p)

        def replace(a, b):
            fs._tick("replace", a)
            a_, b_ = _norm(a), _norm(b)
            if a_ not in fs.files:
                raise FileNotFoundError(_errno.ENOENT, "No such file or directory", a_)
            fs.files[b_] = fs.files.pop(a_)

        def fsync(fd):
            fs._tick("fsync", getattr(fd, "path", "?"))
        self.os = types.SimpleNamespace(path=osp, makedirs=makedirs, strerror=real_os.strerror, sep="/",
                                        fspath=real_os.fspath, environ=real_os.environ, posix_fallocate=posix_fallocate,
                                        ftruncate=ftruncate, remove=remove, unlink=remove, replace=replace, rename=replace,
                                        fsync=fsync)

        def gz_open(p, mode="rb", compresslevel=9, **kw):
            return GzipModelFile(fs, p, mode, compresslevel)

        class GzipFile:
            """gzip.GzipFile over an already opened model file (fileobj=...): the stream is written into that file
            object; closing the GzipFile finishes the stream but - like the real class - leaves fileobj open."""
            def __init__(self, filename=None, mode=None, compresslevel=9, fileobj=None, mtime=None):
                if fileobj is None:
                    self._own = GzipModelFile(fs, filename, mode or "rb", compresslevel)
                    self._fo = None
                else:
                    if not isinstance(fileobj, ModelFile) or (mode or "wb").replace("b", "") not in ("w", "x", "a"):
                        raise OutsideModel("gzip.GzipFile over this kind of file object / mode")
                    self._own, self._fo, self._buf = None, fileobj, SBytes()
                    fs.files[fileobj.path] = GzBlob(SBytes(), complete=False)
                self.closed = False

            def __enter__(self):
                return self

            def __exit__(self, *a):
                self.close()
                return False

            def write(self, b):
                if self._own is not None:
                    return self._own.write(b)
                fs._tick("write", self._fo.path)
                self._buf = self._buf + (b if isinstance(b, SBytes) else SBytes(b))
                fs.files[self._fo.path] = GzBlob(self._buf, complete=False)
                return len(b)

            def read(self, n=-1):
                if self._own is None:
                    raise OutsideModel("read from a GzipFile over a file object")
                return self._own.read(n)

            def close(self):
                if self.closed:
                    return
                self.closed = True
                if self._own is not None:
                    return self._own.close()
                fs._tick("write", self._fo.path)          # the trailer goes into fileobj (still open afterwards)
                fs.files[self._fo.path] = GzBlob(self._buf, complete=True)
        self.gzip = types.SimpleNamespace(open=gz_open, BadGzipFile=real_gzip.BadGzipFile, GzipFile=GzipFile)

        self.zlib = types.SimpleNamespace(compress=z_compress, decompress=z_decompress, error=real_zlib.error)

        env = self

        class TemporaryDirectory:
            def __init__(self, *a, **kw):
                fs.tmp_counter += 1
                self.name = f"/tmp/model_tmp{fs.tmp_counter}"

            def cleanup(self):
                pass
        self.TemporaryDirectory = TemporaryDirectory

        def uuid4():
            fs.tmp_counter += 1
            return f"uuid-{fs.tmp_counter}"
        self.uuid4 = uuid4

        at = types.ModuleType("atexit")
        at.register = lambda f, *a, **k: env.atexit_callbacks.append((f, a, k)) or f
        at.unregister = lambda f: None
        self.atexit = at

    def run_atexit(self):
        cbs, self.atexit_callbacks = self.atexit_callbacks, []
        for f, a, k in reversed(cbs):
            f(*a, **k)

    def install_atexit(self):
        sys.modules["atexit"] = self.atexit


Z_MAGIC = b"\x78\x9c"
Z_TAIL = 4


def z_compress(b, *a, **kw):
    """zlib.compress as an invertible, self-delimiting framing: magic + 4-byte payload length + payload + 4 check bytes
    (an uninterpreted function of the payload, modelled as zeros): decompress(compress(b)) == b, data that was not
    produced by compress is rejected with zlib.error, and - like zlib - bytes after the end of the stream are ignored."""
    if not isinstance(b, (SBytes, bytes, bytearray)):
        raise TypeError("a bytes-like object is required")
    b = b if isinstance(b, SBytes) else SBytes(b)
    return SBytes(Z_MAGIC) + SBytes(len(b).to_bytes(4, "little")) + b + SBytes(b"\0" * Z_TAIL)


def z_decompress(b, *a, **kw):
    b = b if isinstance(b, SBytes) else SBytes(b)
    if len(b) < len(Z_MAGIC) + 4 + Z_TAIL:
        raise real_zlib.error("Error -5 while decompressing data: incomplete or truncated stream")
    ok = (b[:2] == Z_MAGIC)
    if not bool(ok):
        raise real_zlib.error("Error -3 while decompressing data: incorrect header check")
    lb = b[2:6]
    if lb.is_concrete():
        n = int.from_bytes(lb.concrete(), "little")
    else:
        from .core import cur
        import z3
        term = z3.Concat(*[x if z3.is_bv(x) else z3.BitVecVal(x, 8) for x in reversed(_byte_terms(lb))])
        n = cur().concretize(z3.simplify(term))
    if 6 + n + Z_TAIL > len(b):
        raise real_zlib.error("Error -5 while decompressing data: incomplete or truncated stream")
    tail_ok = (b[6 + n:6 + n + Z_TAIL] == b"\0" * Z_TAIL)
    if not bool(tail_ok):
        raise real_zlib.error("Error -3 while decompressing data: incorrect data check")
    out = b[6:6 + n]
    return out.concrete() if out.is_concrete() else SBytes(out)


def _byte_terms(sb):
    """8-bit terms of the bytes of an SBytes (un-split parts are expanded by indexing)"""
    out = []
    for i in range(len(sb)):
        x = sb[i]
        out.append(x.e if hasattr(x, "e") else x)
    return out
