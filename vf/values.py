"""Symbolic scalar values.

SInt  - Python ``int`` semantics.  Two back ends: z3 ``Int`` (kind 'int', linear
        arithmetic over sizes and indices) and a wide signed bit-vector (kind
        'bv', W bits) for integers that come from / go to machine words; on the
        bit-vector back end every operation tracks a conservative magnitude
        bound and refuses (OutsideModel) to build a term that could wrap.
SBV   - NumPy fixed-width integer scalar semantics (wrap-around, C shifts).
SQuot - the exact quotient a/b of two SInt (Python true division), only
        consumable through int() (truncation) with a float-exactness obligation.
"""
import builtins

import numpy as real_np
import z3

from .core import OutsideModel, SBool, cur, zbool

W = 80    # width of the bit-vector back end of SInt


def _is_pyint(x):
    return isinstance(x, (builtins.int, real_np.integer)) and not isinstance(x, (bool, real_np.bool_))


class SInt:
    __slots__ = ("e", "kind", "nb")
    __array_ufunc__ = None
    __array_priority__ = 1000

    def __init__(self, e, kind="int", nb=None):
        self.e = e
        self.kind = kind
        self.nb = nb      # bv kind: |value| < 2**nb

    # -- construction helpers
    @staticmethod
    def var(name, kind="int", nb=64):
        if kind == "int":
            return SInt(z3.Int(name), "int")
        return SInt(z3.BitVec(name, W), "bv", nb)

    @staticmethod
    def const(v, kind):
        v = builtins.int(v)
        if kind == "int":
            return SInt(z3.IntVal(v), "int")
        nb = max(v.bit_length(), 1)
        if nb >= W - 1:
            raise OutsideModel("constant too wide for the bit-vector integer model")
        return SInt(z3.BitVecVal(v, W), "bv", nb)

    def _other(self, o):
        if isinstance(o, SInt):
            if o.kind != self.kind:
                raise OutsideModel("mixing Int and BV integer back ends")
            return o
        if isinstance(o, SBV):
            return o.to_sint(self.kind)
        if isinstance(o, bool):
            return SInt.const(builtins.int(o), self.kind)
        if _is_pyint(o):
            return SInt.const(o, self.kind)
        return None

    def _mk(self, e, nb=None):
        e = z3.simplify(e)
        if self.kind == "bv":
            if nb is None or nb >= W - 1:
                raise OutsideModel(f"bit-vector integer model would overflow ({nb} bits)")
        return SInt(e, self.kind, nb)

    def _nb(self):
        return self.nb if self.kind == "bv" else None

    # -- arithmetic
    def __add__(self, o):
        o = self._other(o)
        if o is None:
            return NotImplemented
        return self._mk(self.e + o.e, None if self.kind == "int" else max(self.nb, o.nb) + 1)
    __radd__ = __add__

    def __sub__(self, o):
        o = self._other(o)
        if o is None:
            return NotImplemented
        return self._mk(self.e - o.e, None if self.kind == "int" else max(self.nb, o.nb) + 1)

    def __rsub__(self, o):
        o = self._other(o)
        if o is None:
            return NotImplemented
        return o.__sub__(self)

    def __neg__(self):
        return self._mk(-self.e, self._nb())

    def __pos__(self):
        return self

    def __abs__(self):
        return self._mk(z3.If(self.e >= 0, self.e, -self.e), self._nb())

    def __mul__(self, o):
        o = self._other(o)
        if o is None:
            return NotImplemented
        return self._mk(self.e * o.e, None if self.kind == "int" else self.nb + o.nb)
    __rmul__ = __mul__

    def _floordiv(self, a, b):
        # Python floor division and modulo
        if self.kind == "int":
            # z3 Int div rounds so that the remainder is non-negative
            q = z3.If(b.e > 0, a.e / b.e, (-a.e) / (-b.e))
            r = a.e - q * b.e
            return q, r
        # bit-vectors: z3 '/' is bvsdiv (truncation), '%' is bvsmod (sign follows divisor)
        r = a.e % b.e
        q = z3.If(z3.And(r != 0, (a.e < 0) != (b.e < 0)), a.e / b.e - 1, a.e / b.e)
        return q, r

    def _nonzero(self, b):
        if bool(SBool(b.e == 0)):
            raise ZeroDivisionError("integer division or modulo by zero")

    def __floordiv__(self, o):
        o = self._other(o)
        if o is None:
            return NotImplemented
        self._nonzero(o)
        if self.kind == "bv" and z3.is_bv_value(o.e):
            c = o.e.as_signed_long()
            if c > 0 and c & (c - 1) == 0:
                return self._mk(self.e >> (c.bit_length() - 1), self.nb)
        q, _ = self._floordiv(self, o)
        return self._mk(q, self._nb())

    def __rfloordiv__(self, o):
        o = self._other(o)
        if o is None:
            return NotImplemented
        return o.__floordiv__(self)

    def __mod__(self, o):
        o = self._other(o)
        if o is None:
            return NotImplemented
        self._nonzero(o)
        _, r = self._floordiv(self, o)
        return self._mk(r, None if self.kind == "int" else o.nb)

    def __rmod__(self, o):
        o = self._other(o)
        if o is None:
            return NotImplemented
        return o.__mod__(self)

    def __divmod__(self, o):
        return self // o, self % o

    def __truediv__(self, o):
        o = self._other(o)
        if o is None:
            return NotImplemented
        self._nonzero(o)
        return SQuot(self, o)

    def __rtruediv__(self, o):
        o = self._other(o)
        if o is None:
            return NotImplemented
        return o.__truediv__(self)

    def __pow__(self, o):
        if isinstance(o, SInt):
            o = cur().concretize(o.e if o.kind == "int" else o.e)
            if self.kind == "bv" and o >= 1 << (W - 1):
                o -= 1 << W
        if not _is_pyint(o) or o < 0:
            raise OutsideModel("unsupported exponent")
        r = SInt.const(1, self.kind)
        for _ in range(builtins.int(o)):
            r = r * self
        return r

    def __rpow__(self, base):
        if not _is_pyint(base):
            return NotImplemented
        return builtins.int(base) ** self.__index__()

    # -- bit operations (python int semantics)
    def __lshift__(self, k):
        if isinstance(k, SInt):
            k = k.__index__()
        if k < 0:
            raise ValueError("negative shift count")
        return self * (1 << builtins.int(k))

    def __rlshift__(self, n):
        return builtins.int(n) << self.__index__()

    def __rshift__(self, k):
        if isinstance(k, SInt):
            k = k.__index__()
        if k < 0:
            raise ValueError("negative shift count")
        return self // (1 << builtins.int(k))

    def __rrshift__(self, n):
        return builtins.int(n) >> self.__index__()

    def __and__(self, m):
        o = self._other(m)
        if o is None:
            return NotImplemented
        if self.kind == "bv":
            nb = max(self.nb, o.nb)
            return self._mk(self.e & o.e, nb)
        if _is_pyint(m) and m >= 0 and (m + 1) & m == 0:      # low-bit mask
            return self % (builtins.int(m) + 1)
        raise OutsideModel("bitwise and on the Int back end")
    __rand__ = __and__

    def __or__(self, m):
        o = self._other(m)
        if o is None:
            return NotImplemented
        if self.kind == "bv":
            return self._mk(self.e | o.e, max(self.nb, o.nb))
        raise OutsideModel("bitwise or on the Int back end")
    __ror__ = __or__

    # -- comparisons
    def _cmp(self, o, f):
        o = self._other(o)
        if o is None:
            return NotImplemented
        return SBool(f(self.e, o.e))

    def __lt__(self, o): return self._cmp(o, lambda a, b: a < b)
    def __le__(self, o): return self._cmp(o, lambda a, b: a <= b)
    def __gt__(self, o): return self._cmp(o, lambda a, b: a > b)
    def __ge__(self, o): return self._cmp(o, lambda a, b: a >= b)

    def __eq__(self, o):
        if getattr(o, "_sym_number", False):
            return NotImplemented           # let the other symbolic number kind decide
        r = self._cmp(o, lambda a, b: a == b)
        return False if r is NotImplemented else r

    def __ne__(self, o):
        if getattr(o, "_sym_number", False):
            return NotImplemented
        r = self._cmp(o, lambda a, b: a != b)
        return True if r is NotImplemented else r

    def __hash__(self):
        return 0

    def __bool__(self):
        return cur().decide(self.e != 0)

    def __index__(self):
        v = cur().concretize(self.e)
        if self.kind == "bv" and v >= 1 << (W - 1):
            v -= 1 << W
        # the path condition now pins the value: keep the constant (sound on this path)
        self.e = z3.BitVecVal(v, W) if self.kind == "bv" else z3.IntVal(v)
        if self.kind == "bv":
            self.nb = max(abs(v).bit_length(), 1)
        return v

    __int__ = __index__

    def __zexpr__(self):
        return self.e

    def __repr__(self):
        return f"SInt<{self.kind}>({self.e})"

    def __format__(self, spec):
        return f"<{self!r}>"

    def is_concrete(self):
        e = z3.simplify(self.e)
        return z3.is_int_value(e) or z3.is_bv_value(e)

    def bit_length(self):
        """int.bit_length(): case split on k with 2**(k-1) <= |x| < 2**k"""
        ctx = cur()
        a = abs(self)
        if ctx.decide((a == 0).e):
            return 0
        for k in range(1, 130):
            if ctx.decide((a < (1 << k)).e):
                return k
        raise OutsideModel("bit_length beyond 129")


class SQuot:
    """Exact quotient of two SInt; Python computes it as a float."""
    def __init__(self, a, b):
        self.a, self.b = a, b

    def _cmp(self, o, op):
        """comparison of the float quotient with a numeric constant: exact when the quotient is exactly representable
        (|a| < 2**53 and b a constant power of two), outside the model otherwise"""
        from fractions import Fraction
        if isinstance(o, bool) or not isinstance(o, (builtins.int, builtins.float)):
            return NotImplemented
        bv = z3.simplify(self.b.e) if isinstance(self.b, SInt) else z3.IntVal(builtins.int(self.b))
        if not (z3.is_int_value(bv) and bv.as_long() > 0 and bv.as_long() & (bv.as_long() - 1) == 0) or self.a.kind != "int":
            raise OutsideModel("comparison of a float quotient whose divisor is not a constant power of two")
        lim = 1 << 53
        if not cur().decide(z3.And(self.a.e > -lim, self.a.e < lim)):
            raise OutsideModel("comparison of a float quotient with a dividend beyond 2**53")
        c = Fraction(o)
        return SBool(op(self.a.e * c.denominator, c.numerator * bv.as_long()))

    def __lt__(self, o):
        return self._cmp(o, lambda x, y: x < y)

    def __le__(self, o):
        return self._cmp(o, lambda x, y: x <= y)

    def __gt__(self, o):
        return self._cmp(o, lambda x, y: x > y)

    def __ge__(self, o):
        return self._cmp(o, lambda x, y: x >= y)

    def trunc(self):
        a, b = self.a, self.b
        # float(a)/float(b) is the correctly rounded quotient only if a and b are exactly
        # representable; int() of it equals the exact truncation when |a| < 2**53 and b
        # is exactly representable (then the rounded quotient cannot cross an integer).
        lim = 1 << 53
        for x in (a, b):
            ok = SBool(z3.And(x.e > -lim, x.e < lim))
            if not cur().decide(ok.e):
                raise OutsideModel("int(a/b) with an operand beyond 2**53")
        if a.kind == "int":
            q = z3.If(a.e >= 0, z3.If(b.e > 0, a.e / b.e, -(a.e / (-b.e))),
                      z3.If(b.e > 0, -((-a.e) / b.e), (-a.e) / (-b.e)))
        else:
            q = a.e / b.e      # bvsdiv truncates towards zero
        return a._mk(q, a._nb())


def ite(c, a, b):
    """If-then-else over SInt / SBV / python ints without forking."""
    c = zbool(c)
    if z3.is_true(z3.simplify(c)):
        return a
    if z3.is_false(z3.simplify(c)):
        return b
    if isinstance(a, SBV) or isinstance(b, SBV):
        t = a if isinstance(a, SBV) else b
        a = t._coerce_same(a)
        b = t._coerce_same(b)
        return SBV(z3.simplify(z3.If(c, a.e, b.e)), t.dtype)
    t = a if isinstance(a, SInt) else b
    if not isinstance(t, SInt):
        return a if cur().decide(c) else b
    a = t._other(a)
    b = t._other(b)
    return SInt(z3.simplify(z3.If(c, a.e, b.e)), t.kind, None if t.kind == "int" else max(a.nb, b.nb))


def smin(*args, **kw):
    if len(args) == 1:
        args = tuple(args[0])
    if kw or not any(isinstance(a, (SInt, SBV)) for a in args):
        return builtins.min(*args, **kw)
    r = args[0]
    for a in args[1:]:
        r = ite(a < r, a, r)
    return r


def smax(*args, **kw):
    if len(args) == 1:
        args = tuple(args[0])
    if kw or not any(isinstance(a, (SInt, SBV)) for a in args):
        return builtins.max(*args, **kw)
    r = args[0]
    for a in args[1:]:
        r = ite(a > r, a, r)
    return r


# ------------------------------------------------------------------- SBV

def _dt(dtype):
    return real_np.dtype(dtype)


def dtype_bits(dt):
    dt = _dt(dt)
    return dt.itemsize * 8, dt.kind == "i"


class SBV:
    """NumPy integer scalar of a fixed dtype with a symbolic value."""
    __slots__ = ("e", "dtype")
    __array_ufunc__ = None
    __array_priority__ = 1000

    def __init__(self, e, dtype):
        self.e = e
        self.dtype = _dt(dtype)

    @staticmethod
    def var(name, dtype):
        bits, _ = dtype_bits(dtype)
        return SBV(z3.BitVec(name, bits), dtype)

    @staticmethod
    def const(v, dtype):
        bits, _ = dtype_bits(dtype)
        return SBV(z3.BitVecVal(builtins.int(v) % (1 << bits), bits), dtype)

    @property
    def bits(self):
        return self.dtype.itemsize * 8

    @property
    def signed(self):
        return self.dtype.kind == "i"

    @property
    def itemsize(self):
        return self.dtype.itemsize

    def cast(self, dtype):
        """C-style cast (NumPy astype(..., casting='unsafe') between integer types)."""
        dtype = _dt(dtype)
        if dtype.kind not in "ui":
            raise OutsideModel(f"cast of symbolic integer to {dtype}")
        nb = dtype.itemsize * 8
        if nb == self.bits:
            return SBV(self.e, dtype)
        if nb < self.bits:
            return SBV(z3.simplify(z3.Extract(nb - 1, 0, self.e)), dtype)
        ext = z3.SignExt if self.signed else z3.ZeroExt
        return SBV(z3.simplify(ext(nb - self.bits, self.e)), dtype)

    astype = cast

    def to_sint(self, kind):
        if kind == "bv":
            ext = z3.SignExt if self.signed else z3.ZeroExt
            return SInt(z3.simplify(ext(W - self.bits, self.e)), "bv", self.bits)
        return SInt(z3.BV2Int(self.e, self.signed), "int")

    def _coerce_same(self, o):
        if isinstance(o, SBV):
            return o.cast(self.dtype) if o.dtype != self.dtype else o
        return SBV.const(o, self.dtype)

    def _pair(self, o):
        """NumPy 2 promotion (NEP 50): python ints are weak."""
        if isinstance(o, SBV):
            dt = real_np.result_type(self.dtype, o.dtype)
        elif isinstance(o, (real_np.integer, real_np.bool_)):
            dt = real_np.result_type(self.dtype, o.dtype)
            o = SBV.const(builtins.int(o), o.dtype if o.dtype.kind in "ui" else real_np.uint8)
        elif isinstance(o, bool):
            dt = self.dtype
            o = SBV.const(builtins.int(o), dt)
        elif isinstance(o, builtins.int):
            info = real_np.iinfo(self.dtype)
            if not info.min <= o <= info.max:
                raise OverflowError(f"Python integer {o} out of bounds for {self.dtype}")
            dt = self.dtype
            o = SBV.const(o, dt)
        elif isinstance(o, SInt):
            return self._pair(o.__index__())
        elif False:
            info = real_np.iinfo(self.dtype)
            fits = z3.And(o.e >= info.min, o.e <= info.max) if o.kind == "int" else \
                z3.And(o.e >= z3.BitVecVal(info.min, W), o.e <= z3.BitVecVal(info.max, W))
            if not cur().decide(fits):
                raise OverflowError(f"Python integer out of bounds for {self.dtype}")
            dt = self.dtype
            if o.kind == "int":
                raise OutsideModel("mixing Int back end with NumPy scalar")
            o = SBV(z3.simplify(z3.Extract(self.bits - 1, 0, o.e)), dt)
        else:
            return None
        if dt.kind not in "ui":
            raise OutsideModel(f"integer operation promoted to {dt}")
        return self.cast(dt), o.cast(dt), dt

    def _bin(self, o, f, fs=None):
        p = self._pair(o)
        if p is None:
            return NotImplemented
        a, b, dt = p
        g = fs if (fs is not None and dt.kind == "i") else f
        return SBV(z3.simplify(g(a.e, b.e)), dt)

    def _rbin(self, o, f, fs=None):
        p = self._pair(o)
        if p is None:
            return NotImplemented
        a, b, dt = p
        g = fs if (fs is not None and dt.kind == "i") else f
        return SBV(z3.simplify(g(b.e, a.e)), dt)

    def __add__(self, o): return self._bin(o, lambda a, b: a + b)
    __radd__ = __add__
    def __sub__(self, o): return self._bin(o, lambda a, b: a - b)
    def __rsub__(self, o): return self._rbin(o, lambda a, b: a - b)
    def __mul__(self, o): return self._bin(o, lambda a, b: a * b)
    __rmul__ = __mul__
    def __and__(self, o): return self._bin(o, lambda a, b: a & b)
    __rand__ = __and__
    def __or__(self, o): return self._bin(o, lambda a, b: a | b)
    __ror__ = __or__
    def __xor__(self, o): return self._bin(o, lambda a, b: a ^ b)
    __rxor__ = __xor__
    def __lshift__(self, o): return self._bin(o, lambda a, b: a << b)
    def __rlshift__(self, o): return self._rbin(o, lambda a, b: a << b)
    def __rshift__(self, o): return self._bin(o, z3.LShR, lambda a, b: a >> b)
    def __rrshift__(self, o): return self._rbin(o, z3.LShR, lambda a, b: a >> b)

    def __floordiv__(self, o):
        p = self._pair(o)
        if p is None:
            return NotImplemented
        a, b, dt = p
        if dt.kind == "i":
            raise OutsideModel("signed NumPy floor division")
        return SBV(z3.simplify(z3.If(b.e == 0, z3.BitVecVal(0, b.bits), z3.UDiv(a.e, b.e))), dt)

    def __mod__(self, o):
        p = self._pair(o)
        if p is None:
            return NotImplemented
        a, b, dt = p
        if dt.kind == "i":
            raise OutsideModel("signed NumPy remainder")
        return SBV(z3.simplify(z3.If(b.e == 0, z3.BitVecVal(0, b.bits), z3.URem(a.e, b.e))), dt)

    def __rpow__(self, base):
        if not isinstance(base, builtins.int):
            return NotImplemented
        return base ** self.__index__()

    def __invert__(self):
        return SBV(z3.simplify(~self.e), self.dtype)

    def __neg__(self):
        return SBV(z3.simplify(-self.e), self.dtype)

    def _cmp(self, o, fu, fs):
        if isinstance(o, builtins.int) and not isinstance(o, bool):
            # NumPy 2 compares python ints by value, even out-of-range ones
            info = real_np.iinfo(self.dtype)
            if o < info.min:
                return fu is _GT or fu is _GE or fu is _NE
            if o > info.max:
                return fu is _LT or fu is _LE or fu is _NE
        if isinstance(o, SBV) and o.dtype != self.dtype and {o.dtype.kind, self.dtype.kind} == {"u", "i"}:
            # NumPy 2 compares mixed-sign integers by value
            nb = max(o.bits, self.bits) + 1
            a = (z3.SignExt if self.signed else z3.ZeroExt)(nb - self.bits, self.e)
            b = (z3.SignExt if o.signed else z3.ZeroExt)(nb - o.bits, o.e)
            return SBool(fs(a, b))
        p = self._pair(o)
        if p is None:
            return NotImplemented
        a, b, dt = p
        return SBool((fs if dt.kind == "i" else fu)(a.e, b.e))

    def __lt__(self, o): return self._cmp(o, _LT, lambda a, b: a < b)
    def __le__(self, o): return self._cmp(o, _LE, lambda a, b: a <= b)
    def __gt__(self, o): return self._cmp(o, _GT, lambda a, b: a > b)
    def __ge__(self, o): return self._cmp(o, _GE, lambda a, b: a >= b)

    def __eq__(self, o):
        r = self._cmp(o, _EQ, _EQ)
        return False if r is NotImplemented else r

    def __ne__(self, o):
        r = self._cmp(o, _NE, _NE)
        return True if r is NotImplemented else r

    def __hash__(self):
        return 0

    def __bool__(self):
        return cur().decide(self.e != 0)

    def __index__(self):
        v = cur().concretize(self.e)
        if self.signed and v >= 1 << (self.bits - 1):
            v -= 1 << self.bits
        return v

    __int__ = __index__

    def tobytes(self):
        from .sbytes import SBytes, Part
        n = self.itemsize
        return SBytes([Part(self, i, n) for i in range(n)])

    def __array_function__(self, func, types, args, kwargs):
        from .sarray import HANDLERS
        h = HANDLERS.get(func.__name__)
        if h is None:
            raise OutsideModel(f"numpy.{func.__name__} on a symbolic scalar")
        return h(*args, **kwargs)

    def item(self):
        return self.to_sint("bv")

    def __zexpr__(self):
        return self.e

    def __repr__(self):
        return f"SBV<{self.dtype}>({z3.simplify(self.e)})"

    def __format__(self, spec):
        return f"<{self!r}>"

    # minimal ndarray-scalar protocol
    shape = ()
    ndim = 0
    size = 1

    def is_concrete(self):
        return z3.is_bv_value(z3.simplify(self.e))


_LT, _LE, _GT, _GE = z3.ULT, z3.ULE, z3.UGT, z3.UGE


def _EQ(a, b):
    return a == b


def _NE(a, b):
    return a != b


def np_int_ctor(dtype):
    """Stand-in for np.uint64(...) etc.: NumPy scalar constructor semantics on symbolic values."""
    dtype = _dt(dtype)
    real_ctor = dtype.type
    info = real_np.iinfo(dtype)
    bits = dtype.itemsize * 8

    def ctor(x=0):
        if isinstance(x, SBV):
            if x.dtype == dtype:
                return x
            # NumPy converts scalars of other integer types C-style (no range check)
            return x.cast(dtype)
        if isinstance(x, SInt):
            if x.kind == "bv":
                fits = z3.And(x.e >= z3.BitVecVal(info.min, W), x.e <= z3.BitVecVal(info.max, W))
                if not cur().decide(fits):
                    raise OverflowError(f"Python integer out of bounds for {dtype}")
                return SBV(z3.simplify(z3.Extract(bits - 1, 0, x.e)), dtype)
            fits = z3.And(x.e >= info.min, x.e <= info.max)
            if not cur().decide(fits):
                raise OverflowError(f"Python integer out of bounds for {dtype}")
            return SBV(z3.simplify(z3.Int2BV(x.e, bits)), dtype)
        return real_ctor(x)
    ctor.__name__ = dtype.name
    ctor.dtype = dtype
    return ctor


# ------------------------------------------------------------------- builtins stand-ins

class _IntMeta(type):
    def __instancecheck__(cls, x):
        return isinstance(x, builtins.int) or isinstance(x, SInt)

    def __call__(cls, x=0, *a):
        if isinstance(x, SInt):
            return x
        if isinstance(x, SQuot):
            return x.trunc()
        if isinstance(x, SBV):
            return x.to_sint("bv")
        return builtins.int(x, *a)


class sym_int(metaclass=_IntMeta):
    """Stand-in for the builtin ``int`` name inside repository modules."""


def sym_isinstance(x, t):
    if t is builtins.int or (isinstance(t, tuple) and builtins.int in t):
        if isinstance(x, SInt):
            return True
    return builtins.isinstance(x, t)
