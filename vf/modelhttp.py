"""Model static-file HTTP server over a model file system, and the requests.Session stand-in."""
import types
import urllib.parse

import requests as real_requests

from .core import OutsideModel
from .modelfs import GzBlob
from .sbytes import SBytes


class Response:
    def __init__(self, status, content=b"", url=""):
        self.status_code = status
        self.content = content
        self.url = url
        self.headers = {}

    def raise_for_status(self):
        if 400 <= self.status_code < 600:
            raise real_requests.exceptions.HTTPError(f"{self.status_code} Error for url: {self.url}", response=self)

    @property
    def ok(self):
        return self.status_code < 400


class ModelServer:
    """Serves the files under fs_root as http://<host>/<url_root>/...; a file stored as name.gz is served
    under name with Content-Encoding: gzip (transparent to the client), as the documentation prescribes."""
    def __init__(self, fs, fs_root, url_root):
        self.fs = fs
        self.fs_root = fs_root.rstrip("/")
        self.url_root = url_root.rstrip("/")
        self.requests = 0
        self.log = []
        self.plan = {}          # request index -> fault kind

    def _lookup(self, url):
        r = urllib.parse.urlsplit(url)
        base = urllib.parse.urlsplit(self.url_root)
        if r.netloc != base.netloc or not r.path.startswith(base.path + "/"):
            return None
        rel = urllib.parse.unquote(r.path[len(base.path) + 1:])
        if ".." in rel.split("/") or rel.endswith("/") or not rel:
            return None
        p = f"{self.fs_root}/{rel}"
        files = self.fs.files
        if p in files:
            d = files[p]
            return d if not isinstance(d, GzBlob) else d          # a raw .gz image requested by its own name
        if p + ".gz" in files and isinstance(files[p + ".gz"], GzBlob) and files[p + ".gz"].complete:
            return files[p + ".gz"].payload
        return None

    def handle(self, method, url, headers=None):
        i = self.requests
        self.requests += 1
        fault = self.plan.get(i)
        if fault is None and self.plan.get("from") is not None and i >= self.plan["from"][0]:
            fault = self.plan["from"][1]          # persistent outage from request n on
        self.log.append((method, url, dict(headers or {}), fault))
        if fault == "conn":
            raise real_requests.exceptions.ConnectionError("connection dropped")
        if isinstance(fault, int) and 400 <= fault < 600:
            return Response(fault, b"<html>error</html>", url)
        data = self._lookup(url)
        if data is None:
            return Response(404, b"<html>not found</html>", url)
        if method == "HEAD":
            return Response(200, b"", url)
        if isinstance(data, GzBlob):
            raise OutsideModel("compressed image served verbatim")
        data = data if isinstance(data, SBytes) else SBytes(data)
        rng = (headers or {}).get("Range")
        status = 200
        hdrs = {}
        if rng:
            total = len(data)
            a, b = rng.split("=")[1].split("-")
            a, b = int(a), int(b)
            if a >= len(data) and not (a == 0 and len(data) == 0):
                return Response(416, b"", url)
            data = data[a:b + 1]
            status = 206
            # a misbehaving server is at least honest about what it sends: Content-Range describes the body
            if fault == "short" and len(data):
                data = data[:len(data) - 1]
            elif fault == "long":
                data = data + SBytes(b"\0")
            elif fault == "ignore-range":
                data = self._lookup(url)
                data = data if isinstance(data, SBytes) else SBytes(data)
                status = 200
            if status == 206:
                hdrs["Content-Range"] = f"bytes {a}-{a + len(data) - 1}/{total}"
        hdrs["Content-Length"] = str(len(data))
        content = data.concrete() if data.is_concrete() else data
        r = Response(status, content, url)
        r.headers.update(hdrs)
        return r


def make_requests(server):
    class Session:
        def __init__(self):
            self.headers = {}

        def _merged(self, headers):
            h = dict(self.headers)          # session-level default headers are sent with every request
            h.update(headers or {})
            return h

        def get(self, url, headers=None, **kw):
            return server.handle("GET", url, self._merged(headers))

        def head(self, url, headers=None, **kw):
            return server.handle("HEAD", url, self._merged(headers))
    return types.SimpleNamespace(Session=Session, codes=real_requests.codes, exceptions=real_requests.exceptions,
                                 HTTPError=real_requests.HTTPError, RequestException=real_requests.RequestException)
