"""Read-only access to /verif/known_findings.json (never written at run time)."""
import json
import os

_P = os.path.join(os.path.dirname(os.path.dirname(os.path.abspath(__file__))), "known_findings.json")


def _load():
    try:
        with open(_P) as f:
            return json.load(f).get("findings", [])
    except FileNotFoundError:
        return []


def regions_for(prop, harness):
    """[(finding id, region expression)] for the open findings of one harness."""
    return [(f["id"], f["region"]) for f in _load()
            if f.get("property") == prop and f.get("status") == "open" and f.get("harness") == harness]


def regions_with_labels(prop, harness):
    """[(finding id, region expression, labels or None)]"""
    return [(f["id"], f["region"], f.get("labels")) for f in _load()
            if f.get("property") == prop and f.get("status") == "open" and f.get("harness") == harness]
