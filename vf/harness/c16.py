"""C16 - generated metadata and transform place the image correctly in space."""
import builtins
import json
import types

import numpy as real_np
import z3

from .. import load
from ..findings import regions_for
from ..core import OutsideModel
from ..sarray import NPProxy, SArray, SRl, SIV
from . import _vol as V

PROPERTY = "C16"
MODULES = ["volume_reader", "transform", "sharded_base", "data_types"]

FUNCTIONS = ["volume_reader.nibabel_image_to_info", "volume_reader.store_nibabel_image_to_fullres_info (incl. repeated runs into one directory)",
             "transform.nifti_to_neuroglancer_transform", "transform.matrix_as_compact_urlsafe_json", "sharded_base.ShardSpec.to_dict (sharding option)",
             "data_types.get_dtype"]
STUBS = ["nibabel image -> fake image; nibabel.affines.voxel_sizes -> returns the enumerated voxel sizes and constrains the "
         "affine's column norms accordingly; aff2axcodes -> constant (only logged)",
         "np.empty((4,4)) -> matrix of exact reals; np.dot = exact sum of products (z3 Real)",
         "harness 'compact': str/repr/float/format/int/json.dumps in transform.py -> symbolic text (cells = literal characters or "
         "digit terms) of the double nearest to D*10^-k: repr is the canonical form of that decimal (fixed notation for "
         "1e-4 <= |x| < 1e16, else d.ddde+XX); every str method is computed cell-wise with forks on digit values"]
ASSUMPTIONS = ["the transform clause is about the real-arithmetic meaning of the formulas (float rounding excluded)"]
EXPLANATION = ("The affine is 12 symbolic reals (any rotation, shear, flip; column norms tied to the enumerated voxel sizes) and the "
               "voxel index is symbolic: the solver proves M_ng * ((i + 1/2) * resolution, 1) == 10^6 * A * (i, 1), i.e. the "
               "corner-based Neuroglancer coordinates of a voxel map to the nanometre position the file's affine gives its "
               "centre. Size, channel count, resolution, data type and sharding spec of the generated info are checked for "
               "enumerated shapes/dtypes.")
BOUNDS = {"quick": "all real affines with voxel sizes from {0.375, 0.5, 1, 2, 3, 4} (8 triples) plus three triples with sub-nanometre / very large sizes (2^-30 .. 1024 mm; values for which voxel size * 10^6 is exact in binary floating point); shapes 3-D/4-D, stored dtypes uint8, uint16, int16, "
                   "float32, float64, with/without header scaling; sharding strings '1,2,3' / gzip; compact form: 4x4 matrices with one or two "
                   "symbolic entries D*10^-k, every integer |D| < 10^6 (all digit counts / trailing-zero patterns), every k in -20..20, "
                   "among fixed entries covering integers, fractions, exponent notation of both signs",
          "thorough": "48 voxel-size triples from {0.25, 0.375, 0.5, 1, 2, 3, 4, 8}^3; compact form |D| < 10^11"}
OUTSIDE = ["compact URL form for doubles that are not the nearest double of a decimal with at most 6 significant digits "
           "(their shortest repr is produced by C code; the model is validated against CPython by harness 'reprmodel')", "nibabel header parsing",
           "float rounding in the matrix arithmetic"]


def configs(tier, seed):
    out = []
    vs_list = [(1.0, 1.0, 1.0), (0.5, 1.0, 2.0), (2.0, 2.0, 0.5), (0.375, 1.0, 4.0), (1.0, 0.5, 0.5), (3.0, 1.0, 1.0), (0.5, 0.5, 0.5), (2.0, 1.0, 3.0),
               (2.0 ** -20, 1.0, 2.0 ** -21), (2.0 ** -24, 2.0 ** -24, 2.0 ** -18), (1024.0, 0.5, 2.0 ** -30)]      # sub-nanometre / very large voxels
    if tier == "thorough":
        import itertools
        import random
        allv = list(itertools.product((0.25, 0.375, 0.5, 1.0, 2.0, 3.0, 4.0, 8.0), repeat=3))
        random.Random(seed).shuffle(allv)
        vs_list = vs_list + [v for v in allv if v not in vs_list][:40]
    for i, vs in enumerate(vs_list):
        out.append(dict(harness="transform", vs=list(vs), cost=1, timeout_ms=60000))
    cases = [((3, 2, 4), "uint8", None), ((2, 3, 1, 2), "uint16", None), ((2, 2, 2), "int16", None), ((1, 5, 2), "float32", None),
             ((2, 2, 2), "float64", None), ((2, 1, 2), "uint8", (2.0, 1.0)), ((2, 2, 2), "uint16", (1.0, -1024.0)), ((2, 2, 1), "int16", (0.5, 0.0)), ((3, 3, 3, 3), "uint64", None), ((2, 2, 2), "int8", None),
             ((2, 3, 2), "rgb", None)]
    for shape, dt, sc in cases:
        for sharding in (None, "1,2,3"):
            out.append(dict(harness="info", shape=list(shape), dtype=dt, scaling=sc, sharding=sharding, gzip=bool(sharding and len(shape) == 3), cost=1))
    base = [[0.25, -0.5, 0.0, -1234567.875], [1e-07, 1000000.0, 3.0, 1.5e+300], [0.0, 2.5e-10, 1e+16, 12345678.9], [0.0, 0.0, 0.0, 1.0]]
    digits = 6 if tier == "quick" else 11
    for n, k in enumerate(list(range(-20, 21, 1))):
        out.append(dict(harness="compact", base=base, sym=[[[n % 3, (n * 2 + 1) % 4], k]], digits=digits, cost=2))
    out.append(dict(harness="compact", base=base, sym=[[[0, 0], 0], [[2, 3], 7]], digits=3, cost=4))
    out.append(dict(harness="compact", base=base, sym=[[[1, 1], -14], [[3, 0], 2]], digits=3, cost=4))
    out.append(dict(harness="store", volumes=[[[1.0, 2.0, 0.5], [3.0, -4.0, 8.0]], [[2.0, 2.0, 2.0], [0.0, 16.0, -1.0]]], cost=1))
    out.append(dict(harness="store", volumes=[[[0.5, 0.5, 4.0], [0.0, 0.0, 0.0]], [[0.5, 0.5, 4.0], [10.0, 0.0, 0.0]], [[1.0, 1.0, 1.0], [0.0, 0.0, 0.0]]], cost=1))
    out.append(dict(harness="reprmodel", Ds=[0, 1, -1, 5, 10, 12, 25, 100, 101, 120, 999, 1000, 1234, -4050, 99999, 100000, 123456, 1234567, 9007199, 123456789012345], cost=1))
    return out


# ------------------------------------------------------------------ compact URL form

class CompactParseError(Exception):
    pass


def parse_compact(ctx, cells):
    """Parser of the compact form written from its definition: JSON with '_' in place of ',' (what Neuroglancer's URL
    parser undoes), an array of arrays of JSON numbers.  Returns rows of (M, E): the number is M * 10**E exactly."""
    from ..symtext import Dg
    pos = [0]

    def peek():
        return cells[pos[0]] if pos[0] < len(cells) else None

    def lit(ch):
        c = peek()
        if not (isinstance(c, str) and c == ch):
            raise CompactParseError(f"expected {ch!r} at {pos[0]}, found {c!r}")
        pos[0] += 1

    def is_digit(c):
        return isinstance(c, Dg) or (isinstance(c, str) and c in "0123456789")

    def dval(c):
        return c.e if isinstance(c, Dg) else z3.IntVal(int(c))

    def digits():
        ds = []
        while is_digit(peek()):
            ds.append(peek())
            pos[0] += 1
        return ds

    def number():
        neg = False
        if peek() == "-":
            neg = True
            pos[0] += 1
        ip = digits()
        if not ip:
            raise CompactParseError(f"digit expected at {pos[0]}: {peek()!r}")
        if len(ip) > 1:
            first = ip[0]
            zero = (first == "0") if isinstance(first, str) else ctx.decide(first.e == 0)
            if zero:
                raise CompactParseError("JSON numbers have no leading zeros")
        fp = []
        if peek() == ".":
            pos[0] += 1
            fp = digits()
            if not fp:
                raise CompactParseError("digit expected after the decimal point")
        E = 0
        if isinstance(peek(), str) and peek() in "eE":
            pos[0] += 1
            sign = 1
            if isinstance(peek(), str) and peek() in "+-":
                sign = -1 if peek() == "-" else 1
                pos[0] += 1
            ed = digits()
            if not ed:
                raise CompactParseError("digit expected in the exponent")
            ev = 0
            for c in ed:
                ev = ev * 10 + (int(c) if isinstance(c, str) else ctx.concretize(c.e))
            E = sign * ev
        M = z3.IntVal(0)
        for c in ip + fp:
            M = M * 10 + dval(c)
        return (-M if neg else M), E - len(fp), len(ip) + len(fp)

    def row():
        lit("[")
        out = [number()]
        while peek() == "_":
            pos[0] += 1
            out.append(number())
        lit("]")
        return out

    lit("[")
    rows = [row()]
    while peek() == "_":
        pos[0] += 1
        rows.append(row())
    lit("]")
    if pos[0] != len(cells):
        raise CompactParseError(f"trailing text at {pos[0]}")
    return rows


def H_compact(ctx, cfg):
    """matrix_as_compact_urlsafe_json: the text parses back (JSON with '_' for ',') to the same matrix.  One or two entries
    are symbolic doubles D * 10**-k (any integer D of up to `digits` digits), the others are fixed values."""
    from fractions import Fraction
    from .. import symtext as T
    tr = load.patch("transform", json=T.JsonStub(), str=T.sym_str, repr=T.sym_repr, float=T.sym_float, format=T.sym_format,
                    int=lambda x=0, *a: x.sym_int() if isinstance(x, T.SDecFloat) else builtins.int(x, *a))
    base = [[float(v) for v in r] for r in cfg["base"]]
    M = [list(r) for r in base]
    syms = {}
    for j, (pos, k) in enumerate(cfg["sym"]):
        D = z3.Int(f"D{j}")
        ctx.assume(z3.And(D > -10 ** cfg["digits"], D < 10 ** cfg["digits"]))
        ctx.input(f"D{j}", D)
        x = T.SDecFloat(D, k)
        M[pos[0]][pos[1]] = x
        syms[tuple(pos)] = x
    out = tr.matrix_as_compact_urlsafe_json(M)
    cells = T.expand(out)
    ctx.sample(dict(sym=cfg["sym"], length=len(cells)))
    try:
        rows = parse_compact(ctx, cells)
    except CompactParseError as e:
        ctx.fail("compact-form-parses", detail=f"{e}: {out!r}")
        return
    ok_shape = len(rows) == len(M) and all(len(r) == len(m) for r, m in zip(rows, M))
    ctx.prove(ok_shape, "compact-form-has-the-matrix-shape", detail=repr(out))
    if not ok_shape:
        return
    for i, r in enumerate(rows):
        for j, (Mv, E, nd) in enumerate(r):
            x = M[i][j]
            if isinstance(x, T.SDecFloat):
                # Mv * 10^E == D * 10^-k: equal decimals denote equal doubles; with <= 15 digits on both sides
                # different decimals denote different doubles, beyond that a difference is not conclusive
                s = min(E, -x.k)
                same = Mv * 10 ** (E - s) == x.D * 10 ** (-x.k - s)
                if nd > 15 and not ctx.decide(same):
                    raise OutsideModel("a rendered symbolic number with more than 15 digits differs from the input decimal")
                ctx.prove(same, f"entry-{i}-{j}-parses-back-to-the-same-number")
            else:
                Mc = z3.simplify(Mv)
                if not z3.is_int_value(Mc):
                    ctx.fail(f"entry-{i}-{j}-parses-back-to-the-same-number", detail="concrete entry rendered with symbolic digits")
                    continue
                val = Fraction(Mc.as_long()) * Fraction(10) ** E
                ctx.prove(float(val) == x, f"entry-{i}-{j}-parses-back-to-the-same-number", detail=f"{float(val)!r} for {x!r}")


def H_reprmodel(ctx, cfg):
    """Validation of the repr model of SDecFloat against CPython on a grid of concrete (D, k) (translator validation)."""
    from .. import symtext as T
    bad = []
    for k in range(-22, 25):
        for D in cfg["Ds"]:
            x = T.SDecFloat(z3.IntVal(D), k)
            got = "".join(c if isinstance(c, str) else "?" for c in x.repr_cells())
            want = repr(float(f"{D}e{-k}"))
            if got != want:
                bad.append((D, k, got, want))
    ctx.input("bad", [list(map(str, b)) for b in bad[:5]])
    ctx.prove(not bad, "repr-model-agrees-with-cpython", detail=str(bad[:5]))


def _world(vs, ctx=None, sym_affine=False):
    W = V.World(exact_int=True)

    class VRNP(type(W.npx)):
        def empty(self, shape, dtype=float, **k):
            a = real_np.empty(shape, dtype=object)
            for idx in real_np.ndindex(*a.shape):
                a[idx] = SRl(z3.Real("unset_" + "_".join(map(str, idx))))
            return SArray(a, "float64")

        # float matrices the code builds to fill in afterwards: exact-rational elements, so that symbolic entries can be stored
        def _const(self, arr):
            a = real_np.empty(arr.shape, dtype=object)
            for idx in real_np.ndindex(*a.shape):
                a[idx] = SRl(z3.Q(*float(arr[idx]).as_integer_ratio()))
            return SArray(a, "float64")

        def eye(self, *a, **k):
            r = real_np.eye(*a, **k)
            return self._const(r) if r.dtype == real_np.float64 else r

        def identity(self, *a, **k):
            r = real_np.identity(*a, **k)
            return self._const(r) if r.dtype == real_np.float64 else r

        def zeros(self, *a, **k):
            r = real_np.zeros(*a, **k)
            return self._const(r) if r.dtype == real_np.float64 and r.ndim == 2 else r

        def ones(self, *a, **k):
            r = real_np.ones(*a, **k)
            return self._const(r) if r.dtype == real_np.float64 and r.ndim == 2 else r
    vrnp = VRNP(exact_int=True)
    vrnp.asanyarray = W.npx.asanyarray

    def voxel_sizes(affine):
        if ctx is not None and isinstance(affine, SArray):
            for c in range(3):
                col = [affine.a[r, c].r for r in range(3)]
                n, d = real_np.float64(vs[c]).as_integer_ratio()
                ctx.assume(col[0] * col[0] + col[1] * col[1] + col[2] * col[2] == z3.RealVal(n * n) / z3.RealVal(d * d))
        return real_np.array(vs, dtype=float)
    nib = types.SimpleNamespace(load=None, affines=types.SimpleNamespace(voxel_sizes=voxel_sizes),
                                orientations=types.SimpleNamespace(aff2axcodes=lambda a: ("R", "A", "S")))
    load.patch("volume_reader", np=vrnp, nibabel=nib)
    load.patch("transform", np=vrnp)
    return W


def H_transform(ctx, cfg):
    vs = cfg["vs"]
    W = _world(vs, ctx, True)
    A = real_np.empty((4, 4), dtype=object)
    syms = []
    for r in range(3):
        for c in range(4):
            x = z3.Real(f"a{r}{c}")
            syms.append(x)
            A[r, c] = SRl(x)
    for c, v in enumerate((0, 0, 0, 1)):
        A[3, c] = SRl(z3.RealVal(v))
    affine = SArray(A.copy(), "float64")         # the image's own array; A stays the harness's reference copy
    ctx.input("affine", syms)
    raw = SArray.from_elems([SIV(z3.IntVal(0), "uint8")] * 8, "uint8", (2, 2, 2))
    img = V.FakeImage(raw, affine=affine)
    info_s, json_transform, in_dt, imperfect = W.vr.nibabel_image_to_info(img)
    info = json.loads(info_s)
    res = info["scales"][0]["resolution"]
    ctx.prove(res == [float(v * 1000000) for v in vs], "resolution-is-voxel-size-in-nanometres", detail=str(res))
    i = [z3.Real(f"i{d}") for d in range(3)]
    ctx.input("voxel_index", i)
    M = [[(x.r if isinstance(x, SRl) else SRl.of(x).r) for x in row] for row in json_transform]
    conds = []
    for r in range(3):
        ng = [(i[c] + z3.RealVal("1/2")) * z3.Q(*float(res[c]).as_integer_ratio()) for c in range(3)]      # corner-based voxel coordinate in nm
        lhs = sum(M[r][c] * ng[c] for c in range(3)) + M[r][3]
        rhs = 1000000 * (sum(A[r, c].r * i[c] for c in range(3)) + A[r, 3].r)
        conds.append(z3.simplify(lhs - rhs, som=True) == 0)
    ctx.sample(dict(voxel_sizes=vs, resolution=res))
    ctx.prove(z3.And(conds), "transform-maps-voxel-corner-coordinates-to-the-affine-position-of-the-voxel-centre")
    last = [(x.r if isinstance(x, SRl) else SRl.of(x).r) for x in json_transform[3]]
    ctx.prove(z3.And(last[0] == 0, last[1] == 0, last[2] == 0, last[3] == 1), "last-row-0-0-0-1")
    # the image object is left as it was: generating the metadata a second time from it gives the same answer
    info_s2, jt2, _, _ = W.vr.nibabel_image_to_info(img)
    M2 = [[(x.r if isinstance(x, SRl) else SRl.of(x).r) for x in row] for row in jt2]
    ctx.prove(json.loads(info_s2) == info and z3.And([z3.simplify(a - b, som=True) == 0 for ra, rb in zip(M, M2) for a, b in zip(ra, rb)]),
              "second-generation-from-the-same-image-gives-the-same-metadata")


def _pair_consistent(info_text, transform_text):
    """exact check (rationals) that transform.json places the volume described by info_fullres.json: returns the affine
    (mm) the pair encodes, or None when the two files do not belong together"""
    from fractions import Fraction
    info = json.loads(info_text)
    M = [[Fraction(x) for x in row] for row in json.loads(transform_text)]
    res = [Fraction(x) for x in info["scales"][0]["resolution"]]
    # transform * ((i + 1/2) * res) == 10^6 * A * i  for all i  <=>  A[:, c] = M[:, c] * res[c] / 10^6 and
    # A[:, 3] = (M[:, 3] + sum_c M[:, c] * res[c] / 2) / 10^6; the voxel size implied by A's columns must be res / 10^6
    A = [[M[r][c] * res[c] / 1000000 for c in range(3)] + [(M[r][3] + sum(M[r][c] * res[c] / 2 for c in range(3))) / 1000000] for r in range(3)]
    for c in range(3):
        if sum(A[r][c] ** 2 for r in range(3)) != (res[c] / 1000000) ** 2:
            return None
    return A


def H_store(ctx, cfg):
    """--generate-info twice into one directory for volumes with different geometry: whatever the second run does
    (refuse or replace), info_fullres.json and transform.json on disk must describe the same volume afterwards."""
    from fractions import Fraction
    W = V.World()

    class VRNP(type(W.npx)):
        def empty(self, *a, **k):          # only the 4x4 transform matrix is allocated in volume_reader (concrete here)
            return real_np.empty(*a, **k)
    vrnp = VRNP()
    vrnp.asanyarray = W.npx.asanyarray
    load.patch("volume_reader", np=vrnp)
    load.patch("transform", np=real_np)
    acc = W.accessor("/mfs/gen", {})
    imgs = []
    for vs, t in cfg["volumes"]:
        affine = real_np.diag([vs[0], vs[1], vs[2], 1.0])
        affine[:3, 3] = t
        raw = SArray.from_elems([SIV(z3.IntVal(0), "uint8")] * 8, "uint8", (2, 2, 2))
        imgs.append((V.FakeImage(raw, affine=affine), affine))
    ctx.input("volumes", cfg["volumes"])
    seen = []
    for k, (img, affine) in enumerate(imgs):
        rc = W.vr.store_nibabel_image_to_fullres_info(img, acc)
        files = W.env.fs.files
        it, tt = files.get("/mfs/gen/info_fullres.json"), files.get("/mfs/gen/transform.json")
        ctx.prove(it is not None and tt is not None, f"run-{k}-both-files-present", detail=f"rc={rc}")
        if it is None or tt is None:
            return
        A = _pair_consistent(bytes(it.concrete()).decode(), bytes(tt.concrete()).decode())
        ctx.prove(A is not None, f"run-{k}-transform-and-info-describe-the-same-volume", detail=f"rc={rc}")
        if A is None:
            return
        known = [[[Fraction(float(x)) for x in a[r]] for r in range(3)] for _, a in imgs[:k + 1]]
        ctx.prove(A in known, f"run-{k}-stored-pair-is-one-of-the-volumes-given", detail=f"rc={rc}")
        if rc in (0, None) and k == 0:
            ctx.prove(A == known[0], "first-run-describes-the-first-volume")
        seen.append(rc)
    ctx.sample(dict(return_codes=seen))


def H_info(ctx, cfg):
    vs = (1.0, 2.0, 0.5)
    W = _world(vs)
    shape, dt = cfg["shape"], cfg["dtype"]
    rgb = dt == "rgb"
    if rgb:
        from ..sarray import SStructArray
        raw = SStructArray({n: SArray.fresh(tuple(shape), "uint8", n.lower()) for n in "RGB"}, order="F")
        dt = "uint8"
    else:
        raw = SArray.fresh(tuple(shape), dt, "v", exact_int=real_np.dtype(dt).kind in "ui")
    affine = real_np.diag([vs[0], vs[1], vs[2], 1.0])
    sl, it = cfg["scaling"] or (None, None)
    img = V.FakeImage(raw, affine=affine, slope=sl, inter=it)
    options = {"sharding": cfg["sharding"], "gzip": cfg["gzip"]} if cfg["sharding"] else {}
    ctx.input("case", [shape, cfg["dtype"], cfg["scaling"], cfg["sharding"]])
    info_s, jt, in_dt, imperfect = W.vr.nibabel_image_to_info(img, options=options)
    info = json.loads(info_s)
    sc = info["scales"][0]
    stored = "float64" if cfg["scaling"] else dt
    ng = ("uint8", "uint16", "uint32", "uint64", "float32")
    ctx.sample(dict(shape=shape, stored=dt, scaling=cfg["scaling"], data_type=info["data_type"], imperfect=imperfect))
    ctx.prove(sc["size"] == list(shape[:3]), "size-is-the-volume-shape", detail=str(sc["size"]))
    ctx.prove(info["num_channels"] == (3 if rgb else shape[3] if len(shape) == 4 else 1), "channel-count", detail=str(info["num_channels"]))
    ctx.prove(sc["resolution"] == [1e6, 2e6, 5e5], "resolution-nm", detail=str(sc["resolution"]))
    ctx.prove(info["data_type"] == (stored if stored in ng else "float32") and imperfect == (stored not in ng),
              "data-type-able-to-hold-the-values-else-float32-with-warning-flag", detail=f"{info['data_type']} {imperfect}")
    ctx.prove(sc["voxel_offset"] == [0, 0, 0] and sc["encoding"] == "raw", "offset-and-encoding-defaults")
    if cfg["sharding"]:
        enc = "gzip" if cfg["gzip"] else "raw"
        want = {"@type": "neuroglancer_uint64_sharded_v1", "minishard_bits": 1, "shard_bits": 2, "preshift_bits": 3, "hash": "identity",
                "minishard_index_encoding": enc, "data_encoding": enc}
        ctx.prove(sc.get("sharding") == want, "sharding-option-parsed-into-the-spec", detail=str(sc.get("sharding")))
    else:
        ctx.prove("sharding" not in sc, "no-sharding-unless-requested")


def replay(cfg, cex):
    import nibabel
    from fractions import Fraction
    vr = load.mod("volume_reader")
    if cfg["harness"] == "store":
        import os
        import tempfile
        acc_mod = load.mod("accessor")
        with tempfile.TemporaryDirectory() as td:
            acc = acc_mod.get_accessor_for_url(td, {})
            for k, (vs, t) in enumerate(cfg["volumes"]):
                A = real_np.diag([vs[0], vs[1], vs[2], 1.0])
                A[:3, 3] = t
                img = nibabel.Nifti1Image(real_np.zeros((2, 2, 2), dtype=real_np.uint8), A)
                rc = vr.store_nibabel_image_to_fullres_info(img, acc)
                try:
                    it = open(os.path.join(td, "info_fullres.json")).read()
                    tt = open(os.path.join(td, "transform.json")).read()
                except OSError as e:
                    return True, f"run {k} (rc={rc}): {e}"
                from fractions import Fraction
                got = _pair_consistent(it, tt)
                known = []
                for vs2, t2 in cfg["volumes"][:k + 1]:
                    known.append([[Fraction(vs2[r]) if c == r else Fraction(0) for c in range(3)] + [Fraction(t2[r])] for r in range(3)])
                if got is None or got not in known:
                    return True, (f"after run {k} (rc={rc}) info_fullres.json states resolution {json.loads(it)['scales'][0]['resolution']} "
                                  f"and transform.json is {tt}: together they place a volume that is none of those given")
        return False, "stored pairs stay consistent on the real code"
    if cfg["harness"] == "reprmodel":
        bad = cex["inputs"].get("bad")
        return bool(bad), f"repr model differs from CPython: {bad}"
    if cfg["harness"] == "compact":
        import json as _json
        tr = load.mod("transform")
        M = [[float(v) for v in r] for r in cfg["base"]]
        for j, (pos, k) in enumerate(cfg["sym"]):
            M[pos[0]][pos[1]] = float(f"{int(cex['inputs'][f'D{j}'])}e{-k}")
        text = tr.matrix_as_compact_urlsafe_json(M)
        try:
            back = _json.loads(text.replace("_", ","))
        except ValueError as e:
            return True, f"compact form {text!r} does not parse: {e}"
        if back != M:
            diff = [(i, j, M[i][j], back[i][j]) for i in range(len(M)) for j in range(len(M[i]))
                    if i >= len(back) or j >= len(back[i]) or back[i][j] != M[i][j]] if len(back) == len(M) else "shape"
            return True, f"compact form {text!r} parses back to a different matrix: (row, col, given, parsed) = {diff}"
        return False, "compact form parses back to the same matrix on the real code"
    if cfg["harness"] == "transform":
        A = real_np.eye(4)
        vals = [float(Fraction(x)) if "/" in str(x) or str(x).lstrip("-").replace(".", "").isdigit() else float(str(x).rstrip("?")) for x in cex["inputs"]["affine"]]
        A[:3, :] = real_np.array(vals).reshape(3, 4)
        # rescale the columns to the requested voxel sizes (the model constrains them; algebraic values are approximated)
        for c in range(3):
            n = real_np.linalg.norm(A[:3, c])
            if n == 0:
                return False, "degenerate model"
            A[:3, c] *= cfg["vs"][c] / n
        img = nibabel.Nifti1Image(real_np.zeros((2, 2, 2), dtype=real_np.uint8), A)
        info_s, jt, _, _ = vr.nibabel_image_to_info(img)
        M = real_np.array(jt)
        res = real_np.array(json.loads(info_s)["scales"][0]["resolution"])
        if not real_np.allclose(res, [v * 1e6 for v in cfg["vs"]], rtol=1e-9, atol=0):
            return True, f"resolution {res.tolist()} nm for voxel sizes {cfg['vs']} mm (affine {A[:3].tolist()})"
        for idx in ((0, 0, 0), (1, 0, 0), (0, 1, 1), (3, 2, 5)):
            ng = (real_np.array(idx) + 0.5) * res
            got = M[:3, :3] @ ng + M[:3, 3]
            want = 1e6 * (A[:3, :3] @ real_np.array(idx) + A[:3, 3])
            if not real_np.allclose(got, want, rtol=1e-9, atol=1e-3):
                return True, f"voxel {idx}: transform gives {got.tolist()} nm, the affine places its centre at {want.tolist()} nm (affine {A[:3].tolist()})"
        info_s2, jt2, _, _ = vr.nibabel_image_to_info(img)
        if json.loads(info_s2) != json.loads(info_s) or not real_np.allclose(real_np.array(jt2), M, rtol=1e-12, atol=0):
            return True, (f"second nibabel_image_to_info on the same image: resolution {json.loads(info_s2)['scales'][0]['resolution']} "
                          f"(first {res.tolist()}), transform {real_np.array(jt2).tolist()} (first {M.tolist()})")
        return False, "transform correct on the real code"
    # info clauses: write a real NIfTI file with the same shape / stored dtype / header scaling and re-derive the info
    import os
    import tempfile
    shape, dt, scaling, sharding = cex["inputs"]["case"]
    vs = (1.0, 2.0, 0.5)
    with tempfile.TemporaryDirectory() as td:
        rgb = dt == "rgb"
        if rgb:
            data = real_np.zeros(shape, dtype=[("R", "u1"), ("G", "u1"), ("B", "u1")])
            data["G"] = 7
        else:
            data = (real_np.arange(builtins.int(real_np.prod(shape))) % 100).astype(dt).reshape(shape)
        img = nibabel.Nifti1Image(data, real_np.diag([vs[0], vs[1], vs[2], 1.0]))
        if not rgb:
            img.header.set_data_dtype(dt)
        if scaling:
            img.header.set_slope_inter(scaling[0], scaling[1])
        fn = os.path.join(td, "v.nii")
        nibabel.save(img, fn)
        img = nibabel.load(fn)
        options = {"sharding": sharding, "gzip": cfg["gzip"]} if sharding else {}
        try:
            info_s, jt, in_dt, imperfect = vr.nibabel_image_to_info(img, options=options)
        except Exception as e:
            return True, f"nibabel_image_to_info raised {type(e).__name__}: {e} (shape {shape}, {dt}, options {options})"
        info = json.loads(info_s)
        sc = info["scales"][0]
        ng = ("uint8", "uint16", "uint32", "uint64", "float32")
        eff = "uint8" if rgb else real_np.asanyarray(img.dataobj).dtype.name      # the type of the values the file really holds
        probs = []
        if sc["size"] != list(shape[:3]):
            probs.append(f"size {sc['size']}")
        if info["num_channels"] != (3 if rgb else shape[3] if len(shape) == 4 else 1):
            probs.append(f"num_channels {info['num_channels']}")
        if sc["resolution"] != [1e6, 2e6, 5e5]:
            probs.append(f"resolution {sc['resolution']}")
        if info["data_type"] != (eff if eff in ng else "float32") or imperfect != (eff not in ng):
            probs.append(f"data_type {info['data_type']} (imperfect={imperfect}) for values of type {eff}")
        if bool(sharding) != ("sharding" in sc):
            probs.append("sharding spec")
    return bool(probs), "; ".join(probs) or "info correct on the real code"
