"""C20 - reported statistics match the dataset; readable_count formatting."""
import builtins
import math

import numpy as real_np
import z3

from .. import load
from ..findings import regions_for
from ..sarray import NPProxy
from ..sstr import SDecimal, SStr, install_format_hooks, parse, sym_format, sym_round
from ..values import SInt

PROPERTY = "C20"
MODULES = ["utils", "scripts.scale_stats"]
FUNCTIONS = ["utils.readable_count", "scripts.scale_stats.show_scales_info"]
STUBS = ["format / f-string rendering of symbolic numbers -> SDecimal: the exactly rounded decimal (round-half-even of the "
         "exact binary value, as CPython does) as an integer term; its length by case split on the digit count",
         "int / int true division -> correctly rounded quotient (exact 53-bit rounding model, case split on bit length)",
         "np.prod on python ints -> product with int64 wrap-around (NumPy semantics), so overflow is a counterexample",
         "print -> capture; readable_count inside show_scales_info -> recording stub (the function itself is decided by harness readable)"]
ASSUMPTIONS = ["integer counts (the callers pass ints)"]
EXPLANATION = ("The count is a symbolic integer below 2^70; the solver proves length, significant-digit and rounding-distance "
               "clauses of the formatted text for every count on each path (paths = prefix chosen x digit counts). "
               "show_scales_info runs on symbolic sizes; printed numbers are compared with the product formulas.")
BOUNDS = {"quick": "count in [0, 2^70) complete; sizes 1..10^9 per axis, chunk sizes powers of two 2^0..2^10 (E), dtype/channels E, sharded or not",
          "thorough": "same (the harness is complete in the stated ranges); more chunk size / dtype combinations"}
OUTSIDE = ["non-integer counts", "the link between reported and really written chunk counts is decided in C01/C06/C13 (store_chunk call counts)"]

PREFIXES = {"": 1, "ki": 2 ** 10, "Mi": 2 ** 20, "Gi": 2 ** 30, "Ti": 2 ** 40, "Pi": 2 ** 50, "Ei": 2 ** 60}


def configs(tier, seed):
    out = [dict(harness="readable", lo=lo, hi=hi, cost=3, wall=900, max_paths=20000)
           for lo, hi in ((0, 2 ** 20), (2 ** 20, 2 ** 40), (2 ** 40, 2 ** 53), (2 ** 53, 2 ** 62), (2 ** 62, 2 ** 70))]
    combos = [("uint8", 1, [64, 64, 64], None), ("uint16", 3, [1, 2, 1024], None), ("float32", 2, [32, 32, 32], 4),
              ("uint64", 1, [128, 64, 1], 0)]
    if tier == "thorough":
        combos += [("uint32", 4, [2, 2, 2], 11), ("uint8", 1, [1024, 1024, 1024], None), ("uint64", 2, [4, 8, 16], 1),
                   ("uint16", 1, [1, 1, 1], None), ("float32", 3, [7, 5, 3], None), ("uint8", 2, [64, 64, 64], 20), ("uint32", 1, [3, 1000, 2], 7),
                   ("uint64", 5, [16, 16, 1], None), ("uint8", 1, [2, 4096, 2], 3)]
    for dt, C, cs, sb in combos:
        out.append(dict(harness="stats", dtype=dt, C=C, cs=cs, shard_bits=sb, scales=2, cost=1))
    # a scale may list several chunk layouts: each one is a full copy of the data
    out.append(dict(harness="stats", dtype="uint16", C=1, cs=[32, 32, 32], cs2=[16, 64, 8], shard_bits=None, scales=2, cost=2))
    if tier == "thorough":
        out.append(dict(harness="stats", dtype="uint8", C=3, cs=[8, 8, 8], cs2=[2, 32, 64], shard_bits=None, scales=3, cost=2))
        out.append(dict(harness="stats", dtype="float32", C=1, cs=[5, 6, 7], cs2=[64, 64, 64], shard_bits=None, scales=1, cost=2))
    return out


def H_readable(ctx, cfg):
    install_format_hooks()
    utils = load.patch("utils", format=sym_format, round=sym_round)
    count = SInt.var("count", "int")
    ctx.assume(z3.And(count.e >= cfg["lo"], count.e < cfg["hi"]))
    ctx.input("count", count.e)
    for fid, expr in regions_for(PROPERTY, "readable"):
        ctx.region(fid, eval(expr, {"z3": z3, "count": count.e}))
    res = utils.readable_count(count)
    parts = parse(res)
    decs = [p for p in parts if isinstance(p, SDecimal)]
    lits = "".join(p for p in parts if isinstance(p, str))
    if len(decs) != 1 or not lits.startswith(" ") or lits[1:] not in PREFIXES:
        ctx.fail("unexpected-output-structure", detail=repr(parts))
        return
    d = decs[0]
    factor = PREFIXES[lits[1:]]
    length = len(d) + len(lits)
    ctx.sample(dict(prefix=lits[1:], decimals=d.k, int_digits=d.int_digits(), length=length))
    c = count.e
    ctx.prove(z3.Implies(c <= 2 ** 60, length <= 6), "at-most-six-characters-up-to-2^60", detail=f"length {length}")
    # significant digits: digits of D without leading zeros
    sig = z3.If(d.D >= 10, True, False) if d.k or True else None
    ctx.prove(z3.Implies(c >= 10, d.D >= 10), "at-least-two-significant-digits")
    # |shown * factor - count| <= half a unit of the last printed digit (times factor)
    # shown = D / 10^k  ->  |D*factor - count*10^k| * 2 <= factor
    k10 = 10 ** d.k
    diff = d.D * factor - c * k10
    ad = z3.If(diff >= 0, diff, -diff)
    # beyond 2^53 the quotient is first rounded to a double: allow that relative error too
    slack = z3.If(c >= 2 ** 53, c * k10 / (2 ** 52), 0)
    ctx.prove(2 * ad <= factor + 2 * slack, "within-rounding-distance-of-the-true-value")


def H_stats(ctx, cfg):
    install_format_hooks()
    utils = load.patch("utils", format=sym_format, round=sym_round)
    printed = []
    logged = []
    def rc(x):      # readable_count itself is decided by harness 'readable'
        logged.append(x)
        return "<size>"
    ss = load.patch("scripts.scale_stats", np=NPProxy(), print=lambda *a, **k: printed.append(" ".join(str(x) for x in a)),
                    readable_count=rc)
    dt, C, cs = cfg["dtype"], cfg["C"], cfg["cs"]
    scales = []
    sizes = []
    for i in range(cfg["scales"]):
        sz = [SInt.var(f"s{i}_{d}", "int") for d in range(3)]
        for s in sz:
            ctx.assume(z3.And(s.e >= 1, s.e <= 10 ** 9))
        sizes.append(sz)
        layouts = [cs] + ([cfg["cs2"]] if cfg.get("cs2") and i == 0 else [])
        sc = dict(key=f"k{i}", size=sz, chunk_sizes=layouts, encoding="raw", resolution=[1, 1, 1], voxel_offset=[0, 0, 0])
        if cfg["shard_bits"] is not None:
            sc["sharding"] = {"@type": "neuroglancer_uint64_sharded_v1", "shard_bits": cfg["shard_bits"],
                              "minishard_bits": 1, "preshift_bits": 0, "hash": "identity",
                              "minishard_index_encoding": "raw", "data_encoding": "raw"}
        scales.append(sc)
    ctx.input("sizes", [[s.e for s in sz] for sz in sizes])
    for fid, expr in regions_for(PROPERTY, "stats"):
        ctx.region(fid, eval(expr, {"z3": z3, "sizes": [[s.e for s in sz] for sz in sizes]}))
    info = dict(type="image", data_type=dt, num_channels=C, scales=scales)
    ss.show_scales_info(info)
    itemsize = real_np.dtype(dt).itemsize
    tot_chunks, tot_bytes = 0, 0
    nlines = sum(len(sc["chunk_sizes"]) for sc in scales)
    ctx.prove(len(printed) == nlines + 2, "one-line-per-scale-and-layout-plus-total", detail=str(len(printed)))
    line = 0
    for i, sz in enumerate(sizes):
        for lay in scales[i]["chunk_sizes"]:
            nums = [p for p in parse(printed[line]) if isinstance(p, SDecimal)]
            nchunks = 1
            nbytes = itemsize * C
            for d in range(3):
                nchunks = nchunks * ((sz[d].e - 1) / lay[d] + 1)       # z3 Int division: floor for positive divisors
                nbytes = nbytes * sz[d].e
            tot_chunks = tot_chunks + nchunks
            tot_bytes = tot_bytes + nbytes
            ctx.prove(nums[0].D == nchunks, "reported-chunk-count-is-product-of-ceil(size/chunk)")
            ctx.prove(logged[line].e == nbytes, "reported-bytes-is-voxels*itemsize*channels")
            line += 1
    nums = [p for p in parse(printed[-1]) if isinstance(p, SDecimal)]
    ctx.sample(dict(line=[p if isinstance(p, str) else "<num>" for p in parse(printed[0])]))
    ctx.prove(nums[0].D == tot_chunks, "total-chunks-is-sum-over-scales-and-layouts")
    ctx.prove(logged[-1].e == tot_bytes, "total-bytes-is-sum-over-scales-and-layouts")


# --------------------------------------------------------------------- replay

def replay(cfg, cex):
    inp = cex["inputs"]
    if cfg["harness"] == "readable":
        utils = load.mod("utils")
        from fractions import Fraction
        c = inp["count"]
        s = utils.readable_count(c)
        num, _, prefix = s.partition(" ")
        if prefix not in PREFIXES:
            return True, f"readable_count({c}) = {s!r}: unknown prefix"
        factor = PREFIXES[prefix]
        shown = Fraction(num.replace(",", ""))
        k = len(num.partition(".")[2])
        digits = num.replace(",", "").replace(".", "").lstrip("0")
        probs = []
        if c <= 2 ** 60 and len(s) > 6:
            probs.append("longer than 6 characters")
        if c >= 10 and len(digits) < 2:
            probs.append("fewer than two significant digits")
        tol = Fraction(factor, 2 * 10 ** k) + (Fraction(c, 2 ** 52) if c >= 2 ** 53 else 0)
        if abs(shown * factor - c) > tol:
            probs.append("not within rounding distance")
        return bool(probs), f"readable_count({c}) = {s!r}: {', '.join(probs) or 'fine'}"
    import contextlib
    import io
    ss = load.mod("scripts.scale_stats")
    dt, C, cs = cfg["dtype"], cfg["C"], cfg["cs"]
    scales = []
    for i, sz in enumerate(inp["sizes"]):
        layouts = [cs] + ([cfg["cs2"]] if cfg.get("cs2") and i == 0 else [])
        sc = dict(key=f"k{i}", size=sz, chunk_sizes=layouts, encoding="raw", resolution=[1, 1, 1], voxel_offset=[0, 0, 0])
        if cfg["shard_bits"] is not None:
            sc["sharding"] = {"shard_bits": cfg["shard_bits"]}
        scales.append(sc)
    buf = io.StringIO()
    import warnings
    try:
        with contextlib.redirect_stdout(buf), warnings.catch_warnings():
            warnings.simplefilter("ignore")
            ss.show_scales_info(dict(type="image", data_type=dt, num_channels=C, scales=scales))
    except Exception as e:
        return True, f"show_scales_info raised {type(e).__name__} for sizes {inp['sizes']} (chunk {cs})"
    lines = buf.getvalue().splitlines()
    import re
    utils = load.mod("utils")
    itemsize = real_np.dtype(dt).itemsize
    tot, totb, line = 0, 0, 0
    for i, sc in enumerate(scales):
        sz = sc["size"]
        for lay in sc["chunk_sizes"]:
            want = math.prod(-(-s // c) for s, c in zip(sz, lay))
            nb = math.prod(sz) * itemsize * C
            tot += want
            totb += nb
            got = builtins.int(re.search(r": ([\d,\-]+) chunks", lines[line]).group(1).replace(",", ""))
            if got != want:
                return True, f"scale {i} size {sz} chunk {lay}: reported {got} chunks, real {want}: {lines[line]}"
            if utils.readable_count(nb) + "B" not in lines[line]:
                return True, f"scale {i}: size line {lines[line]!r} does not show {utils.readable_count(nb)}B for {nb} bytes"
            line += 1
    got = builtins.int(re.search(r"Total: ([\d,\-]+) chunks", lines[-1]).group(1).replace(",", ""))
    if got != tot:
        return True, f"total reported {got}, real {tot}"
    if utils.readable_count(totb) + "B" not in lines[-1]:
        return True, f"total line {lines[-1]!r} does not show {utils.readable_count(totb)}B (sizes {inp['sizes']})"
    return False, "statistics correct on the real code"
