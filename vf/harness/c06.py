"""C06 - each pyramid level equals the whole previous level downscaled once."""
import builtins
import copy
import itertools
import random

import numpy as real_np
import z3

from .. import load
from ..core import SBool
from ..findings import regions_for
from ..sarray import SArray, SIV, SBV
from ..values import SInt
from . import _vol as V

PROPERTY = "C06"
MODULES = ["dyadic_pyramid", "downscaling", "data_types", "precomputed_io", "chunk_encoding"]
FUNCTIONS = ["dyadic_pyramid.compute_dyadic_scales", "dyadic_pyramid.compute_dyadic_downscaling",
             "dyadic_pyramid.fill_scales_for_dyadic_pyramid (concrete, to produce the infos)",
             "downscaling.AveragingDownscaler/MajorityDownscaler/StridingDownscaler.downscale",
             "precomputed_io.PrecomputedIO.read_chunk/write_chunk", "accessors on the model file system"]
STUBS = ["as C01 (model file system, NPProxy with np.empty = poison symbols, tqdm no-op)",
         "harness 'tiling': arrays that carry only a symbolic shape and record slice assignments; np.ndindex yields one "
         "arbitrary index (loop abstraction: iterations are independent)"]
ASSUMPTIONS = ["loop iterations of compute_dyadic_downscaling are independent (no loop-carried state except the progress bar)"]
EXPLANATION = ("Level 0 consists of symbolic voxels; the real pyramid computation runs on the model file system; every level "
               "is read back and the solver proves each voxel equal to the selected downscaler applied to the entire "
               "previous level as one array (unwritten voxels are unconstrained poison symbols and cannot be proved "
               "equal). Harness 'tiling' runs compute_dyadic_downscaling with symbolic level sizes (1..10^9) on shape-only "
               "arrays and proves that the octant assignments tile each new chunk without broadcasting and read the "
               "source region the global mapping prescribes, or that the function raises before writing.")
BOUNDS = {"quick": "infos from the real generator: 17 fixed + 60 VERIF_SEED-drawn (sizes 1..9 per axis, target chunk sizes {1,2,4}, resolution "
                   "ratios from {1,2,3,4,8,16}^3); stride/average(edge, outside value)/majority; uint8/uint16/uint32/float32(stride); 1-2 channels; raw "
                   "and compressed_segmentation; deep/flat/sharded; tiling: all old sizes 1..10^9, chunk exponent pairs 0..6",
          "thorough": "sizes up to 9, ratios up to 16, chunk exponent pairs 0..10"}
OUTSIDE = ["lossy sources (JPEG)", "averaging of uint64/float32 values (float64 work type not exact)"]


def _cfg(size, res, tcs, method, dtype="uint8", C=1, enc="raw", layout="deep", outside=None, **kw):
    d = dict(harness="levels", size=list(size), res=list(res), tcs=tcs, method=method, dtype=dtype, C=C, enc=enc, layout=layout,
             outside=outside, cost=3, wall=1200, max_paths=5000)
    d.update(kw)
    return d


def configs(tier, seed):
    rnd = random.Random(seed)
    out = [
        _cfg((5, 4, 3), (1, 1, 1), 2, "average"), _cfg((5, 5, 5), (1, 1, 1), 2, "stride", "float32", 2),
        _cfg((4, 3, 5), (1, 1, 2), 2, "average", "uint16"), _cfg((3, 2, 2), (2, 1, 1), 1, "majority", "uint32", enc="compressed_segmentation"), _cfg((3, 5, 2), (2, 1, 1), 2, "majority", "uint32"),
        _cfg((5, 3, 4), (1, 2, 4), 2, "average", "uint8", outside=7), _cfg((5, 5, 2), (1, 1, 4), 4, "stride", "uint16", layout="flat"),
        _cfg((4, 4, 4), (1, 1, 1), 1, "average", "uint32"), _cfg((5, 2, 3), (4, 1, 2), 2, "majority", "uint8"),
        _cfg((5, 5, 5), (1, 1, 1), 2, "average", "uint8", 2, layout="sharded"), _cfg((3, 3, 3), (2, 2, 1), 1, "stride", "uint8"),
        _cfg((5, 4, 1), (1, 1, 1), 2, "average", "uint16"), _cfg((1, 5, 5), (1, 1, 1), 2, "majority", "uint16"),
        _cfg((5, 5, 3), (1, 4, 1), 2, "average", "uint8"), _cfg((4, 5, 5), (1, 2, 2), 4, "average", "uint8", outside=0),
        _cfg((3, 2, 3), (2, 4, 1), 1, "stride", "uint64", enc="compressed_segmentation", layout="flat"), _cfg((5, 3, 5), (2, 4, 1), 2, "stride", "uint32", layout="flat"),
        # outside value 0 (a falsy option value) with odd sizes on several levels
        _cfg((5, 3, 3), (1, 1, 1), 2, "average", "uint8", outside=0), _cfg((3, 7, 2), (1, 1, 2), 2, "average", "uint16", 2, outside=0, layout="flat"),
        # multi-channel segmentations stored with compressed_segmentation (channels may share label sets)
        _cfg((5, 1, 1), (1, 1, 1), 2, "stride", "uint32", 2, enc="compressed_segmentation", cost=8),
        _cfg((1, 5, 1), (1, 1, 1), 2, "majority", "uint64", 2, enc="compressed_segmentation", cost=8),
    ]
    for _ in range(60 if tier == "quick" else 400):
        size = tuple(rnd.randint(3, 9) if rnd.random() < 0.8 else rnd.randint(1, 2) for _ in range(3))
        res = tuple(rnd.choice((1, 1, 1, 2, 2, 3, 4, 8, 16)) for _ in range(3))
        meth = rnd.choice(("average", "stride", "majority"))
        out.append(_cfg(size, res, rnd.choice((2, 2, 2, 2, 4, 1)), meth,
                        rnd.choice(("uint8", "uint16", "uint32") if meth != "stride" else ("uint8", "uint64", "float32")),
                        rnd.choice((1, 1, 2)), layout=rnd.choice(("deep", "flat", "sharded")),
                        outside=rnd.choice((None, None, 3)) if meth == "average" else None, cost=4, wall=1500))
    exps = range(0, 4) if tier == "quick" else range(0, 7)
    for eo in exps:
        for en in exps:
            out.append(dict(harness="tiling", eo=eo, en=en, cost=2, max_paths=20000, wall=1500))
    return out


def _prepare(cfg):
    W = V.World(exact_int=True)
    info = dict(type="image", data_type=cfg["dtype"], num_channels=cfg["C"], scales=[dict(
        size=list(cfg["size"]), resolution=[float(r) for r in cfg["res"]], voxel_offset=[0, 0, 0], encoding=cfg["enc"])])
    if cfg["enc"] == "compressed_segmentation":
        info["scales"][0]["compressed_segmentation_block_size"] = [2, 2, 2]
    load.mod("scripts.generate_scales_info").set_info_params(info)
    W.dp.fill_scales_for_dyadic_pyramid(info, target_chunk_size=cfg["tcs"])
    if cfg["layout"] == "sharded":
        for sc in info["scales"]:
            m = max(sc["chunk_sizes"][0])
            sc["chunk_sizes"] = [[m, m, m]]
            sc["sharding"] = {"@type": "neuroglancer_uint64_sharded_v1", "minishard_bits": 1, "shard_bits": 1, "preshift_bits": 0,
                              "hash": "identity", "minishard_index_encoding": "raw", "data_encoding": "raw"}
    return W, info


class _ChunkIOCounter:
    """Counts read_chunk / write_chunk calls of a PrecomputedIO object and remembers the count at the start of each scale
    transition, so that a failure can be classified: the tool's *refusal* of a pair of scales is a ValueError or
    NotImplementedError raised before any chunk of that transition is read or written (whatever its wording); anything
    else is a crash that leaves the level partly written."""
    def __init__(self, io, dp):
        self.n = 0
        self.at_level_start = 0
        rd, wr, orig = io.read_chunk, io.write_chunk, dp.compute_dyadic_downscaling

        def read_chunk(*a, **k):
            self.n += 1
            return rd(*a, **k)

        def write_chunk(*a, **k):
            self.n += 1
            return wr(*a, **k)

        def level(*a, **k):
            self.at_level_start = self.n
            return orig(*a, **k)
        io.read_chunk, io.write_chunk = read_chunk, write_chunk
        self._dp, self._orig = dp, orig
        dp.compute_dyadic_downscaling = level

    def restore(self):
        self._dp.compute_dyadic_downscaling = self._orig

    def is_refusal(self, e):
        return isinstance(e, (ValueError, NotImplementedError)) and self.n == self.at_level_start


def H_levels(ctx, cfg):
    try:
        W, info = _prepare(cfg)
    except AssertionError:
        # the generator produces no info for this input (its own defect is C08's subject)
        ctx.ok("scale-generator-produces-no-info")
        return
    dtype, C = cfg["dtype"], cfg["C"]
    X, Y, Z = cfg["size"]
    url = "/mfs/pyr"
    W.put_info(url, info)
    options = dict(flat=cfg["layout"] == "flat", gzip=False)
    if cfg["layout"] == "sharded":
        options["sharding"] = "1,1,0"
    exact = real_np.dtype(dtype).kind in "ui"
    level0 = SArray.fresh((C, Z, Y, X), dtype, "v", exact_int=exact)
    ctx.input("level0", [x.__zexpr__() for x in level0.a.ravel()])
    for fid, expr in regions_for(PROPERTY, "levels"):
        ctx.region(fid, builtins.bool(eval(expr, {"cfg": cfg, "info": info})))
    acc = W.accessor(url, options)
    io = W.pio.get_IO_for_existing_dataset(acc)
    sc0 = info["scales"][0]
    cs = sc0["chunk_sizes"][0]
    for x0 in range(0, X, cs[0]):
        for y0 in range(0, Y, cs[1]):
            for z0 in range(0, Z, cs[2]):
                cc = (x0, min(x0 + cs[0], X), y0, min(y0 + cs[1], Y), z0, min(z0 + cs[2], Z))
                io.write_chunk(level0[:, cc[4]:cc[5], cc[2]:cc[3], cc[0]:cc[1]], sc0["key"], cc)
    if cfg["layout"] == "sharded":
        acc.close()
    ds = load.mod("downscaling").get_downscaler(cfg["method"], info, {"outside_value": cfg["outside"]})
    ctx.sample(dict(size=cfg["size"], resolution=cfg["res"], target_chunk=cfg["tcs"], method=cfg["method"],
                    scales=[(s["key"], s["size"], s["chunk_sizes"][0]) for s in info["scales"]]))
    if len(info["scales"]) == 1:
        ctx.ok("single-scale-info-nothing-to-compute")
    counter = _ChunkIOCounter(io, W.dp)
    try:
        try:
            W.dp.compute_dyadic_scales(io, ds)
        finally:
            counter.restore()
        W.finish()
    except Exception as e:
        if type(e).__name__ in ("OutsideModel", "Inconclusive"):
            raise
        # "fails with an error instead of writing wrong data": the levels completed so far are still checked.
        # The refusal the statement allows is the tool's own verdict that the pair of scales cannot be processed
        # (ValueError / NotImplementedError raised before any chunk of that transition is read or written); an error from
        # inside the chunk loops is a crash that leaves the level partly unwritten
        refusal = counter.is_refusal(e)
        if not refusal:
            ctx.fail("pyramid-computation-crashed-instead-of-refusing-or-completing", detail=f"{type(e).__name__}: {e}"[:300], exc=repr(e)[:200])
            return
        ctx.ok("failed-with-" + type(e).__name__)
        failed = True
    else:
        failed = False
    ropts = {k: v for k, v in options.items() if k != "sharding"}
    prev = level0
    for li in range(1, len(info["scales"])):
        got, problems, _ = W.read_scale(url, info, li, ropts)
        if problems:
            if failed:
                return
            ctx.fail("level-chunk-read-back", detail=f"scale {li}: " + "; ".join(problems[:2]))
            return
        o, n = info["scales"][li - 1]["size"], info["scales"][li]["size"]
        factors = [1 if a == b else 2 for a, b in zip(o, n)]
        ref = ds.downscale(prev, factors)
        ok = tuple(ref.shape) == tuple(got.shape)
        ctx.prove(ok, f"level-{li}-shape", detail=f"{got.shape} vs {ref.shape}")
        if not ok:
            return
        conds = []
        for idx in real_np.ndindex(*got.shape):
            if got[idx] is None:
                ctx.fail(f"level-{li}-voxel-left-unwritten", detail=str(idx))
                return
            conds.append(V.eq_elems(got[idx], ref.a[idx]))
        ctx.prove(z3.And(conds), f"level-{li}-equals-whole-previous-level-downscaled-once")
        prev = SArray(got, dtype)


# ----------------------------------------------------------------------------- symbolic sizes

class ShapeArr:
    """Array that carries only a (symbolic) shape and records slice assignments."""
    def __init__(self, shape, src=None):
        self.shape = tuple(shape)
        self.src = src
        self.assign = []
        self.dtype = real_np.dtype("uint8")

    def _box(self, key):
        box = []
        for k, n in zip(key, self.shape):
            assert isinstance(k, slice) and k.step is None
            lo = 0 if k.start is None else k.start
            hi = n if k.stop is None else k.stop
            lo_e, hi_e, n_e = _ie(lo), _ie(hi), _ie(n)
            lo_c = z3.If(lo_e < n_e, lo_e, n_e)
            hi_c = z3.If(hi_e < n_e, hi_e, n_e)
            box.append((lo_c, z3.If(hi_c > lo_c, hi_c, lo_c)))
        return box

    def __setitem__(self, key, val):
        self.assign.append((self._box(key), val))

    def astype(self, dt, **kw):
        return self


def _ie(x):
    return x.e if isinstance(x, SInt) else z3.IntVal(builtins.int(x))


def H_tiling(ctx, cfg):
    from ..sarray import NPProxy
    W = V.World()
    dp = W.dp

    class NP(NPProxy):
        def empty(self, shape, dtype=None, **kw):
            return ShapeArr(shape)

        def ndindex(self, rng):
            idx = tuple(SInt.var(f"idx{i}", "int") for i in range(len(rng)))
            for i, r in zip(idx, rng):
                ctx.assume(z3.And(i.e >= 0, i.e < _ie(r)))
            yield idx

        def prod(self, x, *a, **k):
            return 0
    load.patch("dyadic_pyramid", np=NP(), tqdm=V.NoTqdm)
    # one (old chunk size, new chunk size, factor) combination per path
    combos = []
    eo, en = cfg["eo"], cfg["en"]
    for fx, fy, fz in itertools.product((1, 2), repeat=3):
        combos.append(((1 << eo,) * 3, (1 << en,) * 3, (fx, fy, fz)))
    combos.append(((1 << eo, 1 << min(eo + 1, 10), 1 << eo), (1 << en, 1 << en, 1 << min(en + 1, 10)), (2, 1, 2)))
    ci = SInt.var("combo", "int")
    ctx.assume(z3.And(ci.e >= 0, ci.e < len(combos)))
    old_cs, new_cs, f = combos[ci.__index__()]
    osz = [SInt.var(f"os{i}", "int") for i in range(3)]
    for s in osz:
        ctx.assume(z3.And(s.e >= 1, s.e <= 10 ** 9))
    nsz = [SInt(z3.simplify((s.e - 1) / ff + 1), "int") for s, ff in zip(osz, f)]
    for a, b, ff in zip(osz, nsz, f):
        if ff == 2:
            ctx.assume(a.e != b.e)       # the code infers the factor from the sizes differing
    ctx.input("old_size", [s.e for s in osz])
    ctx.input("combo", [list(old_cs), list(new_cs), list(f)])
    for fid, expr in regions_for(PROPERTY, "tiling"):
        ctx.region(fid, builtins.bool(eval(expr, {"old_cs": old_cs, "new_cs": new_cs, "f": f})))
    info = {"data_type": "uint8", "num_channels": 1, "scales": [
        {"key": "a", "size": osz, "chunk_sizes": [list(old_cs)]}, {"key": "b", "size": nsz, "chunk_sizes": [list(new_cs)]}]}
    written = []

    reads = []

    class Reader:
        def scale_is_lossy(self, k):
            return False

        def read_chunk(self, key, cc):
            reads.append(cc)
            return ShapeArr((1, cc[5] - cc[4], cc[3] - cc[2], cc[1] - cc[0]), src=cc)

    class Down:
        def check_factors(self, ff):
            return True

        def downscale(self, chunk, ff):
            sh = (chunk.shape[0],) + tuple(SInt(z3.simplify((_ie(n) - 1) / d + 1), "int") for n, d in zip(chunk.shape[1:], reversed(ff)))
            return ShapeArr(sh, src=chunk.src)

    class Writer:
        def write_chunk(self, chunk, key, cc):
            written.append((chunk, cc))
    try:
        dp.compute_dyadic_downscaling(info, 0, Down(), Reader(), Writer())
    except Exception as e:
        if type(e).__name__ in ("OutsideModel", "Inconclusive"):
            raise
        ctx.prove(not written, "error-raised-before-anything-is-written", detail=f"{type(e).__name__}: {e}")
        refusal = isinstance(e, (ValueError, NotImplementedError)) and not written and not reads
        ctx.prove(refusal, "failure-is-the-tool's-refusal-of-the-pair-of-scales", detail=f"{type(e).__name__}: {e}")
        ctx.ok("raises-" + type(e).__name__)
        return
    (chunk, cc), = written
    ctx.sample(dict(old_chunk=list(old_cs), new_chunk=list(new_cs), factors=list(f), assignments=len(chunk.assign)))
    conds = []
    raises = []        # NumPy raises ValueError for a shape mismatch unless the source axis has length 1 (broadcast)
    for box, val in chunk.assign:
        for ax in (1, 2, 3):
            lo, hi = box[ax]
            vlen = _ie(val.shape[ax])
            conds.append(hi - lo == vlen)                      # exact shape match: no broadcasting of a length-1 axis
            raises.append(z3.And(hi - lo != vlen, vlen != 1))
            dim = 3 - ax
            origin = _ie(cc[2 * dim])
            src_lo = _ie(val.src[2 * dim])
            conds.append(src_lo == f[dim] * (origin + lo))     # the source region the global mapping prescribes
            conds.append(src_lo % old_cs[dim] == 0)            # and it is a chunk of the old grid
    fails = z3.Or(raises)
    ctx.prove(z3.Or(fails, z3.And(conds)),
              "octant-assignments-have-exact-shapes-and-read-the-prescribed-source-region-or-the-assignment-raises")
    p = [z3.Int(f"p{a}") for a in range(3)]
    inside = z3.And([z3.And(p[a] >= 0, p[a] < _ie(chunk.shape[a + 1])) for a in range(3)])
    covered = z3.Or([z3.And([z3.And(p[a] >= box[a + 1][0], p[a] < box[a + 1][1]) for a in range(3)]) for box, _ in chunk.assign])
    ctx.prove(z3.Or(fails, z3.Implies(inside, covered)), "assignments-cover-every-voxel-of-the-new-chunk")
    # the written chunk is the grid cell of the iteration index and has the cell's shape
    for dim in range(3):
        lo, hi = _ie(cc[2 * dim]), _ie(cc[2 * dim + 1])
        ctx.prove(z3.And(lo % new_cs[dim] == 0, lo < nsz[dim].e,
                         hi == z3.If(lo + new_cs[dim] < nsz[dim].e, lo + new_cs[dim], nsz[dim].e),
                         _ie(chunk.shape[3 - dim]) == hi - lo), "written-chunk-is-a-cell-of-the-new-grid")


# --------------------------------------------------------------------- replay

def _ref_down(method, arr, factors, outside):
    ds = load.mod("downscaling").get_downscaler(method, None, {"outside_value": outside})
    return ds.downscale(arr, factors)


def replay(cfg, cex):
    import os
    import tempfile
    inp = cex["inputs"]
    dp = load.mod("dyadic_pyramid")
    pio = load.mod("precomputed_io")
    acc_mod = load.mod("accessor")
    if cfg["harness"] == "tiling":
        old_cs, new_cs, f = inp["combo"]
        osz = inp["old_size"]
        if max(osz) > 64:
            return True, f"symbolic-size counterexample with large sizes {osz} (old chunk {old_cs}, new chunk {new_cs}, factors {f}); not replayed with data"
        rng = real_np.random.default_rng(0)
        nsz = [-(-s // ff) for s, ff in zip(osz, f)]
        info = dict(type="image", data_type="uint16", num_channels=1, scales=[
            dict(key="a", size=osz, chunk_sizes=[old_cs], encoding="raw", resolution=[1, 1, 1], voxel_offset=[0, 0, 0]),
            dict(key="b", size=nsz, chunk_sizes=[new_cs], encoding="raw", resolution=[1, 1, 1], voxel_offset=[0, 0, 0])])
        with tempfile.TemporaryDirectory() as td:
            acc = acc_mod.get_accessor_for_url(td, {})
            io = pio.get_IO_for_new_dataset(info, acc)
            vol = rng.integers(0, 60000, size=(1, osz[2], osz[1], osz[0]), dtype=real_np.uint16)
            for x0 in range(0, osz[0], old_cs[0]):
                for y0 in range(0, osz[1], old_cs[1]):
                    for z0 in range(0, osz[2], old_cs[2]):
                        cc = (x0, min(x0 + old_cs[0], osz[0]), y0, min(y0 + old_cs[1], osz[1]), z0, min(z0 + old_cs[2], osz[2]))
                        io.write_chunk(vol[:, cc[4]:cc[5], cc[2]:cc[3], cc[0]:cc[1]], "a", cc)
            ds = load.mod("downscaling").get_downscaler("stride", None, {})
            try:
                dp.compute_dyadic_downscaling(info, 0, ds, io, io)
            except Exception as e:
                wrote = os.path.isdir(os.path.join(td, "b"))
                refusal = isinstance(e, (ValueError, NotImplementedError)) and not wrote
                return wrote or not refusal, f"raised {type(e).__name__}: {e} (after writing: {wrote}; refusal of the pair of scales: {refusal})"
            ref = ds.downscale(vol, f)
            for x0 in range(0, nsz[0], new_cs[0]):
                for y0 in range(0, nsz[1], new_cs[1]):
                    for z0 in range(0, nsz[2], new_cs[2]):
                        cc = (x0, min(x0 + new_cs[0], nsz[0]), y0, min(y0 + new_cs[1], nsz[1]), z0, min(z0 + new_cs[2], nsz[2]))
                        try:
                            ch = io.read_chunk("b", cc)
                        except Exception as e:
                            return True, f"new chunk {cc} unreadable: {e}"
                        if not real_np.array_equal(ch, ref[:, cc[4]:cc[5], cc[2]:cc[3], cc[0]:cc[1]]):
                            return True, f"new chunk {cc} differs from the whole level downscaled (sizes {osz}, chunks {old_cs}->{new_cs}, factors {f})"
        return False, "tiling correct on the real code"
    W_info = None
    dtype, C = cfg["dtype"], cfg["C"]
    X, Y, Z = cfg["size"]
    info = dict(type="image", data_type=dtype, num_channels=C, scales=[dict(
        size=list(cfg["size"]), resolution=[float(r) for r in cfg["res"]], voxel_offset=[0, 0, 0], encoding=cfg["enc"])])
    if cfg["enc"] == "compressed_segmentation":
        info["scales"][0]["compressed_segmentation_block_size"] = [2, 2, 2]
    load.mod("scripts.generate_scales_info").set_info_params(info)
    dp.fill_scales_for_dyadic_pyramid(info, target_chunk_size=cfg["tcs"])
    options = dict(flat=cfg["layout"] == "flat", gzip=False)
    if cfg["layout"] == "sharded":
        for sc in info["scales"]:
            m = max(sc["chunk_sizes"][0])
            sc["chunk_sizes"] = [[m, m, m]]
            sc["sharding"] = {"@type": "neuroglancer_uint64_sharded_v1", "minishard_bits": 1, "shard_bits": 1, "preshift_bits": 0,
                              "hash": "identity", "minishard_index_encoding": "raw", "data_encoding": "raw"}
        options["sharding"] = "1,1,0"
    vals = inp["level0"]
    if dtype == "float32":
        lvl = real_np.array(vals, dtype=real_np.uint32).view(real_np.float32).reshape(C, Z, Y, X)
    else:
        lvl = real_np.array(vals, dtype=real_np.uint64).astype(dtype).reshape(C, Z, Y, X)
    with tempfile.TemporaryDirectory() as td:
        acc = acc_mod.get_accessor_for_url(td, options)
        if cfg["layout"] == "sharded":
            acc.info = copy.deepcopy(info)
        io = pio.get_IO_for_new_dataset(copy.deepcopy(info), acc)
        sc0 = info["scales"][0]
        cs = sc0["chunk_sizes"][0]
        for x0 in range(0, X, cs[0]):
            for y0 in range(0, Y, cs[1]):
                for z0 in range(0, Z, cs[2]):
                    cc = (x0, min(x0 + cs[0], X), y0, min(y0 + cs[1], Y), z0, min(z0 + cs[2], Z))
                    io.write_chunk(lvl[:, cc[4]:cc[5], cc[2]:cc[3], cc[0]:cc[1]], sc0["key"], cc)
        if cfg["layout"] == "sharded":
            acc.close()
        ds = load.mod("downscaling").get_downscaler(cfg["method"], info, {"outside_value": cfg["outside"]})
        counter = _ChunkIOCounter(io, dp)
        try:
            try:
                dp.compute_dyadic_scales(io, ds)
            finally:
                counter.restore()
            if cfg["layout"] == "sharded":
                acc.close()
        except Exception as e:
            refusal = counter.is_refusal(e)
            if refusal:
                return False, f"refuses the pair of scales ({type(e).__name__}: {e}), allowed"
            return True, (f"size {cfg['size']}, resolution {cfg['res']}, target chunk {cfg['tcs']} (chunks "
                          f"{[s_['chunk_sizes'][0] for s_ in info['scales']]}): the pyramid computation crashed with {type(e).__name__}: {e}")
        acc2 = acc_mod.get_accessor_for_url(td, {k: v for k, v in options.items() if k != "sharding"})
        r = pio.get_IO_for_existing_dataset(acc2)
        prev = lvl
        for li in range(1, len(info["scales"])):
            sc = info["scales"][li]
            o, n = info["scales"][li - 1]["size"], sc["size"]
            factors = [1 if a == b else 2 for a, b in zip(o, n)]
            ref = real_np.asarray(ds.downscale(prev, factors))
            csn = sc["chunk_sizes"][0]
            cur_ = real_np.zeros_like(ref)
            for x0 in range(0, n[0], csn[0]):
                for y0 in range(0, n[1], csn[1]):
                    for z0 in range(0, n[2], csn[2]):
                        cc = (x0, min(x0 + csn[0], n[0]), y0, min(y0 + csn[1], n[1]), z0, min(z0 + csn[2], n[2]))
                        try:
                            ch = r.read_chunk(sc["key"], cc)
                        except Exception as e:
                            return True, f"scale {sc['key']} chunk {cc}: {type(e).__name__}: {e}"
                        cur_[:, cc[4]:cc[5], cc[2]:cc[3], cc[0]:cc[1]] = ch
            if cur_.tobytes() != ref.tobytes():
                bad = real_np.argwhere(cur_ != ref)
                return True, (f"scale {sc['key']} (size {n}, chunks {csn}) differs from previous level downscaled by {factors} "
                              f"at {bad[:3].tolist()}: {cur_[tuple(bad[0])]} vs {ref[tuple(bad[0])]}")
            prev = cur_
    return False, "every level equals the previous one downscaled once on the real code"
