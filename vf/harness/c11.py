"""C11 - data-type conversion rounds to nearest and saturates, never wraps."""
import builtins

import numpy as real_np
import z3

from .. import load
from ..core import OutsideModel
from ..findings import regions_for
from ..sarray import NPProxy, SArray, SDy, SIV, SBV, elem_eq

PROPERTY = "C11"
MODULES = ["data_types"]
FUNCTIONS = ["data_types.get_chunk_dtype_transformer", "data_types.get_chunk_dtype_transformer.<locals>.chunk_transformer"]
STUBS = ["np -> NPProxy: np.array(copy=True/False/None) with NumPy 2 semantics (copy=False raises when a copy is needed)",
         "integer voxels = exact z3 Int within the dtype range; float values = exact dyadic m*2^e with symbolic mantissa "
         "and enumerated exponent; int->float and float64->float32 conversions = exact round-to-nearest-even model "
         "(case split on the bit length); float->int cast = truncation in range, unspecified value out of range (C UB)",
         "np.rint / np.clip / astype on those exact values"]
ASSUMPTIONS = ["finite inputs only (NaN/inf are outside the statement)", "float exponents inside the normal range"]
EXPLANATION = ("One symbolic element per (input type, output type) pair: the solver proves that the result of the real "
               "transformer equals the nearest representable target value (ties to even, saturating), for every integer "
               "value of the input type and for every float mantissa at each enumerated exponent. Buffer clauses are "
               "checked on 2x2 arrays incl. strided views and read-only inputs.")
BOUNDS = {
    "quick": "all 10 input types x 5 output types; integer inputs: every value; float32 inputs: every 24-bit mantissa at every "
             "exponent -40..70; float64 inputs: every 53-bit mantissa at exponents -70..72; both preserve_input modes; "
             "contiguous, strided and read-only 2x2 arrays",
    "thorough": "float32: every exponent -149..104; float64: every exponent -1074..970",
}
OUTSIDE = ["NaN and infinities", "subnormal results of float64->float32 narrowing", "float128 inputs"]

IN_TYPES = ["int8", "int16", "int32", "int64", "uint8", "uint16", "uint32", "uint64", "float32", "float64"]
OUT_TYPES = ["uint8", "uint16", "uint32", "uint64", "float32"]


def configs(tier, seed):
    out = []
    for i in IN_TYPES:
        for o in OUT_TYPES:
            out.append(dict(harness="value", i=i, o=o, tier=tier, cost=5 if i.startswith("float") else 1, wall=1500))
            out.append(dict(harness="buffer", i=i, o=o, cost=1))
    return out


def _exps(dtype, tier):
    if dtype == "float32":
        return range(-40, 71) if tier == "quick" else range(-149, 105)
    return list(range(-70, 73)) + [-1074, -1000, -500, 200, 500, 900, 970] if tier == "quick" else range(-1074, 971)


def _fresh_value(ctx, dtype, name, e=None):
    dt = real_np.dtype(dtype)
    if dt.kind in "ui":
        info = real_np.iinfo(dt)
        v = z3.Int(name)
        ctx.assume(z3.And(v >= info.min, v <= info.max))
        return SIV(v, dt), (v, 1)
    prec = SDy.PREC[dt.itemsize]
    m = z3.Int(name)
    ctx.assume(z3.And(m > -(1 << prec), m < (1 << prec)))
    el = SDy(m, e, prec, dt)
    return el, el.value_num_den()


def _rne(n, d):
    if d == 1:
        return n
    q = n / d
    r = n % d
    return q + z3.If(z3.Or(2 * r > d, z3.And(2 * r == d, q % 2 == 1)), 1, 0)


def _expected_int(num, den, odt):
    info = real_np.iinfo(odt)
    r = _rne(num, den)
    return z3.If(r < info.min, info.min, z3.If(r > info.max, info.max, r))


def _check_elem(ctx, res, num, den, o, label):
    odt = real_np.dtype(o)
    if odt.kind in "ui":
        if isinstance(res, SBV):
            got = z3.BV2Int(res.e, False)
        elif isinstance(res, SIV):
            got = res.v
        else:
            ctx.fail(label + "-result-kind", detail=type(res).__name__)
            return
        ctx.prove(got == _expected_int(num, den, odt), label + "-nearest-saturating")
        return
    # float32 output: nearest representable, ties to even (independent formulation)
    if not isinstance(res, SDy):
        ctx.fail(label + "-result-kind", detail=type(res).__name__)
        return
    rn, rd = res.value_num_den()
    # |x - r| as a rational: x = num/den, r = rn/rd
    diff_n = num * rd - rn * den          # over den*rd (positive)
    k = res.e                              # result = m_r * 2^k, |m_r| <= 2^24
    ulp_n, ulp_d = ((1 << k), 1) if k >= 0 else (1, 1 << (-k))
    absdiff = z3.If(diff_n >= 0, diff_n, -diff_n)
    # 2*|x-r| <= ulp   <=>  2*absdiff*ulp_d <= ulp_n*den*rd
    half = 2 * absdiff * ulp_d
    bound = ulp_n * den * rd
    mr = res.m
    am = z3.If(mr >= 0, mr, -mr)
    ctx.prove(z3.And(am <= (1 << 24), half <= bound, z3.Implies(half == bound, mr % 2 == 0),
                     # the result is not coarser than necessary: either exact or mantissa uses the full precision
                     z3.Or(absdiff == 0, am >= (1 << 23))),
              label + "-nearest-float32-ties-even")


def H_value(ctx, cfg):
    i, o = cfg["i"], cfg["o"]
    dt_mod = load.patch("data_types", np=NPProxy(exact_int=True))
    f = dt_mod.get_chunk_dtype_transformer(i, o, warn=False)
    exps = [None] if real_np.dtype(i).kind in "ui" else list(_exps(i, cfg["tier"]))
    if i == "float64" and o == "float32":
        exps = [e for e in exps if -126 <= e <= 74]     # results inside the normal float32 range
    regs = regions_for(PROPERTY, "value")
    if exps[0] is not None:
        # one exponent per path (the exponent is a solver-driven case split)
        from ..values import SInt
        ei = SInt.var("expidx", "int")
        ctx.assume(z3.And(ei.e >= 0, ei.e < len(exps)))
        exps = [exps[ei.__index__()]]
    for e in exps:
        el, (num, den) = _fresh_value(ctx, i, "x", e)
        ctx.input("value", dict(mant=el.__zexpr__(), exp=e))
        for fid, expr in regs:
            ctx.region(fid, eval(expr, {"z3": z3, "i": i, "o": o, "v": el.__zexpr__(), "e": e}))
        arr = SArray.from_elems([el], i, (1, 1, 1, 1))
        res = f(arr)
        ok = res.shape == (1, 1, 1, 1) and real_np.dtype(res.dtype) == real_np.dtype(o)
        ctx.prove(ok, "shape-and-dtype", detail=f"{res.shape} {res.dtype}")
        if e is None or e % 16 == 0:
            ctx.sample(dict(pair=f"{i}->{o}", exponent=e))
        _check_elem(ctx, res.a.reshape(-1)[0], num, den, o, f"{i}->{o}")


def H_buffer(ctx, cfg):
    i, o = cfg["i"], cfg["o"]
    dt_mod = load.patch("data_types", np=NPProxy(exact_int=True))
    f = dt_mod.get_chunk_dtype_transformer(i, o, warn=False)
    e = None if real_np.dtype(i).kind in "ui" else 0
    from ..values import SInt
    ci = SInt.var("case", "int")
    ctx.assume(z3.And(ci.e >= 0, ci.e < 8))
    ci = ci.__index__()        # one (variant, mode) combination per path
    for variant in (("contiguous", "strided", "readonly", "fortran")[ci // 2],):
        for preserve in ((True, False)[ci % 2],):
            vals, exact = [], []
            # Fortran-ordered input into uint64: values up to 2**65, so that the saturation fix-up (which patches
            # elements after the cast) is exercised on a non-C-contiguous array
            big = variant == "fortran" and e is not None and o == "uint64"
            for j in range(8 if variant == "strided" else 4):
                el, nd = _fresh_value(ctx, i, f"{variant}{preserve}{j}", 41 if big else e)
                if not big:
                    # the buffer clauses do not depend on rounding: keep values exactly representable everywhere
                    ctx.assume(z3.And(el.__zexpr__() > -(1 << 23), el.__zexpr__() < (1 << 23)))
                vals.append(el)
                exact.append(nd)
            if variant == "strided":
                base = SArray.from_elems(vals, i, (1, 1, 2, 4))
                arr = base[:, :, :, ::2]
                idx = [0, 2, 4, 6]
            else:
                base = SArray.from_elems(vals, i, (1, 1, 2, 2))
                arr = base
                idx = [0, 1, 2, 3]
            if variant == "fortran":
                base = SArray(real_np.asfortranarray(base.a), base.dtype)
                arr = base
            if variant == "readonly":
                arr.writeable = False
            before = list(base.a.ravel())
            ctx.input("variant", [variant, preserve, 41 if big else 0])
            ctx.input("values", [v.__zexpr__() for v in vals])
            try:
                res = f(arr, preserve_input=preserve)
            except Exception as exc:     # the conversion must work in both modes
                if isinstance(exc, OutsideModel):
                    raise
                ctx.fail(f"{variant}-preserve={preserve}-raised", detail=f"{type(exc).__name__}: {exc}", exc=repr(exc)[:200])
                continue
            if preserve or variant == "readonly":
                conds = []
                for a, b in zip(before, base.a.ravel()):
                    c = True if a is b else elem_eq(a, b)
                    conds.append(z3.BoolVal(bool(c)) if isinstance(c, bool) or c is None else c)
                ctx.prove(z3.And(conds), f"{variant}-input-not-modified")
            out = list(res.a.ravel())
            ctx.prove(res.shape == arr.shape, "shape")
            for j, k in enumerate(idx):
                _check_elem(ctx, out[j], exact[k][0], exact[k][1], o, f"{variant}-preserve={preserve}")
    ctx.sample(dict(pair=f"{i}->{o}", variants=["contiguous", "strided", "readonly"]))


# --------------------------------------------------------------------- replay

def _concrete(i, mant, exp):
    from fractions import Fraction
    if real_np.dtype(i).kind in "ui":
        return real_np.array([mant], dtype=real_np.int64 if mant < 0 else real_np.uint64).astype(i), Fraction(mant)
    x = Fraction(mant) * (Fraction(2) ** exp)
    return real_np.array([float(x)], dtype=i), x


def _nearest(x, o):
    from fractions import Fraction
    import math
    odt = real_np.dtype(o)
    if odt.kind in "ui":
        info = real_np.iinfo(odt)
        fl = math.floor(x)
        r = fl + (1 if (x - fl > Fraction(1, 2) or (x - fl == Fraction(1, 2) and fl % 2 == 1)) else 0)
        return builtins.int(builtins.min(builtins.max(r, info.min), info.max))
    if float(x) == x:
        return float(real_np.float32(float(x)))
    return _round_to_float32(Fraction(x))


def _round_to_float32(x):
    """exact round-to-nearest-even of a rational to float32 (normal and subnormal range; None beyond the finite range)"""
    from fractions import Fraction
    import math
    if x == 0:
        return 0.0
    sign = -1 if x < 0 else 1
    a = abs(x)
    e = math.floor(math.log2(a)) - 23
    while a / Fraction(2) ** e >= 1 << 24:
        e += 1
    while a / Fraction(2) ** e < 1 << 23:
        e -= 1
    e = builtins.max(e, -149)
    q = a / Fraction(2) ** e
    m = math.floor(q)
    r = q - m
    if r > Fraction(1, 2) or (r == Fraction(1, 2) and m % 2 == 1):
        m += 1
    v = Fraction(m) * Fraction(2) ** e
    if v > Fraction(real_np.finfo(real_np.float32).max.item()):
        return None
    return sign * float(v)


def replay(cfg, cex):
    dt_mod = load.mod("data_types")
    i, o = cfg["i"], cfg["o"]
    f = dt_mod.get_chunk_dtype_transformer(i, o, warn=False)
    inp = cex["inputs"]
    if cfg["harness"] == "value":
        arr, x = _concrete(i, inp["value"]["mant"], inp["value"]["exp"])
        arr = arr.reshape(1, 1, 1, 1)
        import warnings
        with warnings.catch_warnings():
            warnings.simplefilter("ignore")
            res = f(arr)
        want = _nearest(x, o)
        got = res.ravel()[0]
        if res.dtype != real_np.dtype(o):
            return True, f"dtype {res.dtype}"
        if want is None:
            return False, "float oracle not evaluable concretely"
        bad = (builtins.int(got) != want) if real_np.dtype(o).kind in "ui" else (float(got) != want)
        return bad, f"{i}->{o}: value {x} converted to {got}, nearest representable is {want}"
    variant, preserve = inp["variant"][:2]
    exp = inp["variant"][2] if len(inp["variant"]) > 2 else 0
    vals = inp["values"]
    if exp:
        base = (real_np.array(vals, dtype=real_np.float64) * 2.0 ** exp).astype(i).reshape(1, 1, 2, 2)
    else:
        base = real_np.array(vals, dtype=real_np.int64).astype(i).reshape((1, 1, 2, 4) if variant == "strided" else (1, 1, 2, 2))
    if variant == "fortran":
        base = real_np.asfortranarray(base)
    arr = base[:, :, :, ::2] if variant == "strided" else base
    if variant == "readonly":
        arr.flags.writeable = False
    keep = base.copy()
    try:
        res = f(arr, preserve_input=preserve)
    except Exception as e:
        return True, f"{i}->{o} {variant} preserve_input={preserve}: raised {type(e).__name__}: {e}"
    if (preserve or variant == "readonly") and not real_np.array_equal(base, keep):
        return True, "input modified"
    from fractions import Fraction
    want = [_nearest(Fraction(builtins.int(v)), o) for v in keep[:, :, :, ::2].ravel()] if variant == "strided" \
        else [_nearest(Fraction(float(v)) if keep.dtype.kind == "f" else Fraction(builtins.int(v)), o) for v in keep.ravel()]
    got = [float(v) if real_np.dtype(o).kind == "f" else builtins.int(v) for v in res.ravel()]
    if got != want:
        return True, f"{i}->{o} {variant} preserve_input={preserve}: {keep.ravel().tolist()} converted to {got}, expected {want}"
    return False, "buffer clause holds"
