"""C05 - sharded storage returns what was stored, whatever the order of writes / buffering strategy."""
import builtins
import itertools
import random

import numpy as real_np
import z3

from .. import load
from ..findings import regions_for
from ..modelfs import Env
from ..sbytes import SBytes
from ..values import SBV, SInt
from . import _shard as S

PROPERTY = "C05"
MODULES = ["sharded_file_accessor", "sharded_base"]
FUNCTIONS = ["sharded_file_accessor.MiniShard.* (reorder buffer, next_cmc, gap filling)", "sharded_file_accessor.Shard.close/read_bytes/fetch_cmc_chunk",
             "sharded_file_accessor.OnDiskBytesDict/OnDiskByteArray/InMemByteArray", "sharded_file_accessor.ShardedScale",
             "sharded_file_accessor.ShardedFileAccessor.store_chunk/fetch_chunk/close",
             "sharded_base.ShardCMC.populate_minishard_dict/get_minishards_offsets", "sharded_base.ReadableMiniShardCMC.__init__/fetch_cmc_chunk",
             "sharded_base.ShardedScaleBase.fetch_cmc_chunk", "sharded_base.CMCReadWrite.get_shard_key/get_minishard_key"]
STUBS = ["as C04 (model file system, symbolic byte strings, zlib framing model, NPProxy)"]
ASSUMPTIONS = ["identity hash", "identifiers are identifiers of grid positions"]
EXPLANATION = ("The same k symbolic chunks (arbitrary distinct grid positions, symbolic payloads) are stored in two runs that "
               "differ by a permutation of the store order and by the buffering strategy; the solver proves the shard file "
               "images byte-identical, then the package's own reader (fresh accessor) must return each payload, and for an "
               "arbitrary unstored position must raise or return zero bytes. Harness 'step' proves, for symbolic bit "
               "counts and an arbitrary counter, that MiniShard.next_cmc enumerates exactly the identifiers of the "
               "minishard in increasing order (one inductive step covering histories of any length). Harness 'orders' stores "
               "all chunks of one minishard (symbolic payloads) in an order chosen by case split over every permutation, "
               "with either buffering strategy, and compares the files with those of the raster order.")
BOUNDS = {"quick": "grids up to 3x4x2, bit triples as C04, raw+gzip, k=2 chunks: both orders x both strategies; full grids: raster "
                   "vs reversed vs shuffled(VERIF_SEED) order; all 5 chunks of one minishard in each of the 120 store orders x both strategies; step: 48 (minishard,shard,preshift) triples in [0,21]^3 (10 fixed + 38 drawn with VERIF_SEED), counter "
                   "and shard/minishard fields symbolic 64-bit",
          "thorough": "k=3 (all 6 orders), more grids; all 720 orders of 6 chunks (one / two minishards, compressed index and data); step: all 22^3 bit triples"}
OUTSIDE = ["minishards with more than 24 identifiers", "real zlib streams"]


def _cfg(h, grid, msp, enc=("raw", "raw"), **kw):
    d = dict(harness=h, grid=list(grid), m=msp[0], s=msp[1], p=msp[2], idx_enc=enc[0], data_enc=enc[1], cost=1,
             wall=1500, max_paths=60000)
    d.update(kw)
    return d


def configs(tier, seed):
    out = []
    trip = [(0, 0, 0), (1, 1, 0), (1, 0, 1), (0, 2, 1), (2, 1, 0), (2, 2, 0), (1, 2, 2)]
    n = 0
    if tier == "quick":
        plan = [((3, 4, 2), (2, 2, 0), False), ((3, 4, 2), (1, 2, 2), False), ((2, 2, 2), (0, 0, 0), True),
                ((2, 2, 2), (1, 1, 0), True), ((2, 1, 3), (1, 0, 1), True), ((2, 1, 3), (0, 2, 1), True),
                ((2, 2, 2), (2, 1, 0), True), ((1, 3, 1), (1, 0, 0), True)]
    else:
        plan = [(g, t, True) for g in ((3, 4, 2), (2, 2, 2), (2, 1, 3)) for t in trip]
    for g, t, un in plan:
        n += 1
        enc = [("raw", "raw"), ("gzip", "gzip"), ("raw", "gzip"), ("gzip", "raw")][n % 4]
        out.append(_cfg("relational", g, t, enc, k=2, lens=[1 + n % 2, n % 3], unstored=un,
                        cost=30 if g == (3, 4, 2) else 8, wall=3400))
    for g in ((3, 4, 2), (2, 2, 2), (2, 1, 3)):
        for t in trip:
            n += 1
            if tier == "quick" and n % 2:
                continue
            enc = [("raw", "raw"), ("gzip", "gzip"), ("raw", "gzip"), ("gzip", "raw")][n % 4]
            out.append(_cfg("fullgrid", g, t, enc, seed=seed, cost=4))
    if tier == "thorough":
        for g, t in (((2, 2, 2), (1, 1, 0)), ((2, 1, 3), (1, 0, 1))):
            out.append(_cfg("relational", g, t, ("gzip", "gzip"), k=3, lens=[1, 0, 2], unstored=False, cost=100, wall=3400))
    # every store order of all chunks of one minishard (the order is a case split: one permutation per path), both
    # buffering strategies: 5 chunks (120 orders), thorough also 6 chunks in two minishards / with compressed data
    out.append(_cfg("orders", (5, 1, 1), (0, 0, 0), ("raw", "raw"), cost=12, wall=1800, max_paths=5000))
    if tier == "thorough":
        out.append(_cfg("orders", (3, 2, 1), (0, 0, 0), ("gzip", "gzip"), cost=40, wall=3400, max_paths=5000))
        out.append(_cfg("orders", (5, 1, 1), (0, 1, 0), ("raw", "gzip"), cost=12, wall=1800, max_paths=5000))
        out.append(_cfg("orders", (1, 2, 3), (1, 0, 0), ("gzip", "raw"), cost=40, wall=3400, max_paths=5000))
    import random as _r
    rnd = _r.Random(seed)
    if tier == "quick":
        trips = [(0, 0, 0), (21, 21, 21), (0, 21, 0), (21, 0, 0), (0, 0, 21), (1, 1, 1), (2, 2, 0), (10, 11, 12), (21, 21, 0),
                 (7, 0, 13)] + [tuple(rnd.randint(0, 21) for _ in range(3)) for _ in range(38)]
        for i in range(0, len(trips), 12):
            out.append(dict(harness="step", triples=trips[i:i + 12], cost=3, timeout_ms=60000))
    else:
        trips = list(itertools.product(range(22), repeat=3))
        for i in range(0, len(trips), 121):
            out.append(dict(harness="step", triples=trips[i:i + 121], cost=20, timeout_ms=60000, wall=3400))
    return out


def _store_run(ctx, cfg, ids, payloads, order, strategy):
    env = Env()
    sb, sfa = S.setup(env)
    info = S.make_info(cfg["grid"], 1, cfg["m"], cfg["s"], cfg["p"], cfg["idx_enc"], cfg["data_enc"])
    acc, scale = S.new_writer(sfa, info, strategy=strategy)
    for i in order:
        scale.store_cmc_chunk(payloads[i], ids[i])
    acc.close()
    env.run_atexit()
    return env, sfa, info


def _same_files(ctx, f1, f2, label):
    ctx.prove(sorted(f1) == sorted(f2), label + "-same-file-names", detail=f"{sorted(f1)} vs {sorted(f2)}")
    for p in sorted(set(f1) & set(f2)):
        a, b = f1[p], f2[p]
        if len(a) != len(b):
            ctx.prove(False, label + "-same-length", detail=f"{p}: {len(a)} vs {len(b)}")
            continue
        r = (a == b)
        ctx.prove(r if isinstance(r, bool) else r.e, label + "-byte-identical")


def _reader(sfa, info):
    acc = sfa.ShardedFileAccessor(S.BASE)
    acc.info = info
    sharding = acc.get_sharding_spec(S.KEY)
    scale_info = acc.get_scale(S.KEY)
    shard_spec = sfa.ShardSpec(**sharding)
    svs = sfa.ShardVolumeSpec(scale_info["chunk_sizes"][0], scale_info["size"])
    scale = sfa.ShardedScale(base_dir=acc.base_dir, key=S.KEY, shard_spec=shard_spec, shard_volume_spec=svs)
    acc.ro_shard_dict[S.KEY] = scale
    return acc, scale


def _check_reads(ctx, sfa, info, ids, payloads, unstored):
    import copy
    acc, scale = _reader(sfa, copy.deepcopy(info))
    for cid, pl in zip(ids, payloads):
        try:
            got = scale.fetch_cmc_chunk(cid)
        except Exception as e:
            ctx.fail("stored-chunk-not-fetchable", detail=f"{type(e).__name__}: {e}", exc=repr(e)[:200])
            continue
        got = got if isinstance(got, SBytes) else SBytes(got)
        if len(got) != len(pl):
            ctx.prove(False, "fetch-length", detail=f"{len(got)} vs {len(pl)}")
            continue
        r = (got == pl)
        ctx.prove(r if isinstance(r, bool) else r.e, "fetch-returns-stored-bytes")
    if unstored is not None:
        try:
            got = scale.fetch_cmc_chunk(unstored)
        except Exception:
            ctx.ok("unstored-chunk-fetch-raises")
            return
        ctx.prove(len(got) == 0, "unstored-chunk-never-reported-as-data", detail=f"{len(got)} bytes returned")


def H_relational(ctx, cfg):
    grid, k = cfg["grid"], cfg["k"]
    ids, poss = S.sym_ids(ctx, grid, k + 1)          # the last one is the never-stored position
    unstored, ids = ids[-1], ids[:-1]
    if not cfg.get("unstored", True):
        ctx.assume(unstored.e == 0)      # not used: pin it (any stored set is still covered)
        unstored = None
    # both store orders are run for every pair, so the pair itself can be taken ordered (halves the case split)
    for a_, b_ in zip(ids, ids[1:]):
        ctx.assume(z3.ULT(a_.e, b_.e))
    payloads = [S.payload(f"d{i}", n) for i, n in enumerate(cfg["lens"])]
    ctx.input("positions", poss[:-1])
    ctx.input("unstored", poss[-1])
    ctx.input("payloads", [list(p.bs) for p in payloads])
    for fid, expr in regions_for(PROPERTY, "relational"):
        ctx.region(fid, eval(expr, {"z3": z3, "cfg": cfg, "pos": poss}))
    base_order = list(range(k))
    env0, sfa, info = _store_run(ctx, cfg, ids, payloads, base_order, "in memory")
    f0 = S.shard_files(env0.fs)
    ctx.sample(dict(grid=grid, bits=[cfg["m"], cfg["s"], cfg["p"]], files=sorted(x.rsplit("/", 1)[1] for x in f0)))
    runs = [(base_order, "on disk")]
    for perm in itertools.permutations(base_order):
        if list(perm) != base_order:
            runs.append((list(perm), "in memory" if len(runs) % 2 else "on disk"))
    for order, strat in runs:
        env1, _, _ = _store_run(ctx, cfg, ids, payloads, order, strat)
        _same_files(ctx, f0, S.shard_files(env1.fs), f"order={order},{strat}")
    # read back with the package's reader from the first image (module state belongs to env of the last setup:
    # re-bind the stand-ins to env0)
    S.setup(env0)
    sfa = load.mod("sharded_file_accessor")
    _check_reads(ctx, sfa, info, ids, payloads, unstored)


def H_orders(ctx, cfg):
    """All chunks of a small grid stored through the accessor API in an arbitrary order (a permutation chosen by case
    split) with either buffering strategy: same shard files as the raster order, every chunk read back."""
    import copy
    grid = cfg["grid"]
    cc = _grid_coords(grid)
    k = len(cc)
    payloads = [S.payload(f"d{i}", 1 + i % 2) for i in range(k)]
    ctx.input("payloads", [list(p.bs) for p in payloads])
    rest, order = list(range(k)), []
    for i in range(k - 1):
        j = SInt.var(f"pick{i}", "int")
        ctx.assume(z3.And(j.e >= 0, j.e < len(rest)))
        order.append(rest.pop(j.__index__()))
    order.append(rest.pop())
    si = SInt.var("strategy", "int")
    ctx.assume(z3.And(si.e >= 0, si.e <= 1))
    strategy = ("in memory", "on disk")[si.__index__()]
    ctx.input("order", [order, strategy])
    ctx.sample(dict(grid=grid, order=order, strategy=strategy))
    info = S.make_info(grid, 1, cfg["m"], cfg["s"], cfg["p"], cfg["idx_enc"], cfg["data_enc"])
    images = []
    for o, st in ((list(range(k)), "in memory"), (order, strategy)):
        env = Env()
        sb, sfa = S.setup(env)
        acc = sfa.ShardedFileAccessor(S.BASE, strategy=st)
        acc.info = copy.deepcopy(info)
        try:
            for i in o:
                acc.store_chunk(payloads[i], S.KEY, cc[i])
            acc.close()
        except Exception as e:
            if type(e).__name__ in ("OutsideModel", "Inconclusive"):
                raise
            ctx.fail("writer-raised", detail=f"order {o} ({st}): {type(e).__name__}: {e}")
            return
        env.run_atexit()
        images.append((env, S.shard_files(env.fs)))
    _same_files(ctx, images[0][1], images[1][1], "raster-vs-order")
    S.setup(images[1][0])
    sfa = load.mod("sharded_file_accessor")
    acc = sfa.ShardedFileAccessor(S.BASE)
    acc.info = copy.deepcopy(info)
    for i, c in enumerate(cc):
        try:
            got = acc.fetch_chunk(S.KEY, c)
        except Exception as e:
            if type(e).__name__ in ("OutsideModel", "Inconclusive"):
                raise
            ctx.fail("stored-chunk-not-fetchable", detail=f"{c}: {type(e).__name__}: {e}")
            continue
        got = got if isinstance(got, SBytes) else SBytes(got)
        r = (got == payloads[i]) if len(got) == len(payloads[i]) else False
        ctx.prove(r if isinstance(r, bool) else r.e, "fetch-returns-stored-bytes", detail=str(c))


def _grid_coords(grid):
    return [(x, x + 1, y, y + 1, z, z + 1) for x in range(grid[0]) for y in range(grid[1]) for z in range(grid[2])]


def H_fullgrid(ctx, cfg):
    """All chunks of the grid except one, stored through the accessor API in three orders."""
    grid = cfg["grid"]
    cc = _grid_coords(grid)
    rnd = random.Random(cfg["seed"])
    missing = rnd.randrange(len(cc))
    stored = [c for i, c in enumerate(cc) if i != missing]
    payloads = {c: S.payload("d" + "_".join(map(str, c[::2])), 1 + (sum(c) % 2)) for c in stored}
    ctx.input("payloads", {str(c): list(p.bs) for c, p in payloads.items()})
    ctx.input("missing", list(cc[missing]))
    for fid, expr in regions_for(PROPERTY, "fullgrid"):
        ctx.region(fid, builtins.bool(eval(expr, {"cfg": cfg})))
    orders = {"raster": stored, "reversed": stored[::-1]}
    sh = list(stored)
    rnd.shuffle(sh)
    orders["shuffled"] = sh
    images = {}
    info = S.make_info(grid, 1, cfg["m"], cfg["s"], cfg["p"], cfg["idx_enc"], cfg["data_enc"])
    envs = {}
    for name, order in orders.items():
        env = Env()
        sb, sfa = S.setup(env)
        import copy
        acc = sfa.ShardedFileAccessor(S.BASE, strategy="on disk" if name == "reversed" else "in memory")
        acc.info = copy.deepcopy(info)
        for c in order:
            acc.store_chunk(payloads[c], S.KEY, c)
        acc.close()
        env.run_atexit()
        images[name] = S.shard_files(env.fs)
        envs[name] = env
    ctx.sample(dict(grid=grid, stored=len(stored), missing=list(cc[missing]), files=sorted(x.rsplit("/", 1)[1] for x in images["raster"])))
    _same_files(ctx, images["raster"], images["reversed"], "raster-vs-reversed(on disk)")
    _same_files(ctx, images["raster"], images["shuffled"], "raster-vs-shuffled")
    S.setup(envs["shuffled"])
    sfa = load.mod("sharded_file_accessor")
    import copy
    acc = sfa.ShardedFileAccessor(S.BASE)
    acc.info = copy.deepcopy(info)
    for c in stored:
        try:
            got = acc.fetch_chunk(S.KEY, c)
        except Exception as e:
            ctx.fail("stored-chunk-not-fetchable", detail=f"{c}: {type(e).__name__}: {e}", exc=repr(e)[:200])
            continue
        got = got if isinstance(got, SBytes) else SBytes(got)
        r = (got == payloads[c]) if len(got) == len(payloads[c]) else False
        ctx.prove(r if isinstance(r, bool) else r.e, "fetch-returns-stored-bytes", detail=str(c))
    try:
        got = acc.fetch_chunk(S.KEY, cc[missing])
    except Exception:
        ctx.ok("unstored-chunk-fetch-raises")
    else:
        ctx.prove(len(got) == 0, "unstored-chunk-never-reported-as-data", detail=f"{len(got)} bytes")


def H_step(ctx, cfg):
    """One inductive step of the reorder buffer: from an arbitrary counter value, next_cmc is the
    counter-th identifier of the minishard; the map is strictly increasing and onto."""
    env = Env()
    sb, sfa = S.setup(env)
    ti = SInt.var("triple", "int")
    ctx.assume(z3.And(ti.e >= 0, ti.e < len(cfg["triples"])))
    mm, ss, pp = cfg["triples"][ti.__index__()]        # one bit-count triple per path
    m, s, p = (SInt.const(v, "bv") for v in (mm, ss, pp))
    spec_ = sfa.ShardSpec(mm, ss, "identity", "raw", "raw", pp)
    ms = sfa.MiniShard(spec_, strategy="in memory")
    a = z3.BitVec("a", 64)
    fm = z3.BitVec("field_minishard", 64)
    fs = z3.BitVec("field_shard", 64)
    m64, s64, p64 = (z3.Extract(63, 0, v.e) for v in (m, s, p))
    one = z3.BitVecVal(1, 64)
    ctx.assume(z3.ULT(fm, one << m64))
    ctx.assume(z3.ULT(fs, one << s64))
    tot = m64 + s64 + p64
    ctx.assume(z3.ULT(a, one << (64 - tot)))          # the compressed counter fits
    ctx.input("msp", [m.e, s.e, p.e])
    ctx.input("a", a)
    ctx.input("fields", [fm, fs])
    ms._appended = SBV(a, real_np.uint64)
    ms.masked_bits = SBV(((fs << m64) | fm) << p64, real_np.uint64)
    nxt = ms.next_cmc
    low = a & ((one << p64) - 1)
    high = z3.LShR(a, p64)
    sigma = (high << tot) | (((fs << m64) | fm) << p64) | low
    ctx.sample(dict(bits=[mm, ss, pp], counter="symbolic 64-bit", fields="symbolic"))
    ctx.prove(nxt.e == sigma, "next_cmc-inserts-the-fixed-fields-into-the-counter")

    class RW(sb.CMCReadWrite):
        def __init__(self, shard_spec):
            self.shard_spec = shard_spec
    rw = RW(spec_)
    ctx.prove(rw.get_minishard_key(nxt).e == fm, "next_cmc-belongs-to-the-minishard")
    ctx.prove(rw.get_shard_key(nxt).e == fs, "next_cmc-belongs-to-the-shard")
    # strictly increasing in the counter
    ms._appended = SBV(a + 1, real_np.uint64)
    nxt2 = ms.next_cmc
    ctx.prove(z3.Implies(z3.ULT(a + 1, one << (64 - tot)), z3.ULT(nxt.e, nxt2.e)), "next_cmc-strictly-increasing")
    # onto: every identifier x of this minishard is next_cmc of its compressed counter
    x = z3.BitVec("x", 64)
    ctx.input("x", x)
    belongs = z3.And(rw.get_minishard_key(SBV(x, real_np.uint64)).e == fm, rw.get_shard_key(SBV(x, real_np.uint64)).e == fs,
                     z3.ULT(x, one << z3.If(z3.UGE(tot + 21, 64), z3.BitVecVal(63, 64), tot + 21)))
    cx = (z3.LShR(x, tot) << p64) | (x & ((one << p64) - 1))
    ms._appended = SBV(cx, real_np.uint64)
    ctx.prove(z3.Implies(belongs, ms.next_cmc.e == x), "every-identifier-of-the-minishard-is-enumerated")


# --------------------------------------------------------------------- replay

def replay(cfg, cex):
    import os
    import tempfile
    sfa = load.mod("sharded_file_accessor")
    inp = cex["inputs"]
    h = cfg["harness"]
    if h == "step":
        # the same lemma on the real MiniShard with the solver's concrete state, in plain integer arithmetic
        import warnings
        sb = load.mod("sharded_base")
        mm, ss, pp = (builtins.int(v) for v in inp["msp"])
        a, (fm, fs), x = builtins.int(inp["a"]), (builtins.int(v) for v in inp["fields"]), builtins.int(inp.get("x", 0))
        M = (1 << 64) - 1
        spec_ = sfa.ShardSpec(mm, ss, "identity", "raw", "raw", pp)
        tot = mm + ss + pp
        fixed = (((fs << mm) | fm) << pp) & M

        def nxt(counter):
            ms = sfa.MiniShard(spec_, strategy="in memory")
            ms._appended = real_np.uint64(counter & M)
            ms.masked_bits = real_np.uint64(fixed)
            with warnings.catch_warnings():
                warnings.simplefilter("ignore")
                return builtins.int(ms.next_cmc)

        class RW(sb.CMCReadWrite):
            def __init__(self, shard_spec):
                self.shard_spec = shard_spec
        rw = RW(spec_)
        want = ((((a >> pp) << tot) & M) | fixed | (a & ((1 << pp) - 1))) & M
        try:
            got = nxt(a)
            if got != want:
                return True, f"next_cmc for counter {a}, bits {(mm, ss, pp)}, fields {(fm, fs)} is {got}, expected {want}"
            if builtins.int(rw.get_minishard_key(real_np.uint64(got))) != fm or builtins.int(rw.get_shard_key(real_np.uint64(got))) != fs:
                return True, f"next_cmc {got} does not belong to minishard {fm} of shard {fs} (bits {(mm, ss, pp)})"
            if a + 1 < (1 << max(0, 64 - tot)) and not got < nxt(a + 1):
                return True, f"next_cmc not increasing at counter {a} (bits {(mm, ss, pp)})"
            lim = min(63, tot + 21)
            if x < (1 << lim) and builtins.int(rw.get_minishard_key(real_np.uint64(x))) == fm and builtins.int(rw.get_shard_key(real_np.uint64(x))) == fs:
                cx = (((x >> tot) << pp) | (x & ((1 << pp) - 1))) & M
                if nxt(cx) != x:
                    return True, f"identifier {x} of the minishard is not enumerated (counter {cx} gives {nxt(cx)}, bits {(mm, ss, pp)})"
        except Exception as e:
            return True, f"{type(e).__name__}: {e} (counter {a}, bits {(mm, ss, pp)})"
        return False, "lemma holds on the real code for this state"
    grid = cfg["grid"]
    info = S.make_info(grid, 1, cfg["m"], cfg["s"], cfg["p"], cfg["idx_enc"], cfg["data_enc"])
    import copy

    def run(order, strategy, td, items):
        d = os.path.join(td, f"run{len(os.listdir(td))}")
        acc = sfa.ShardedFileAccessor(d, strategy=strategy)
        acc.info = copy.deepcopy(info)
        for i in order:
            cc, pl = items[i]
            acc.store_chunk(pl, S.KEY, cc)
        acc.close()
        img = {}
        sd = os.path.join(d, S.KEY)
        for name in sorted(os.listdir(sd)) if os.path.isdir(sd) else []:
            with open(os.path.join(sd, name), "rb") as f:
                img[name] = f.read()
        return d, img

    with tempfile.TemporaryDirectory() as td:
        if h == "relational":
            items = [((p[0], p[0] + 1, p[1], p[1] + 1, p[2], p[2] + 1), bytes(pl)) for p, pl in zip(inp["positions"], inp["payloads"])]
            un = inp["unstored"]
            unstored = (un[0], un[0] + 1, un[1], un[1] + 1, un[2], un[2] + 1)
            orders = [(list(range(len(items))), "in memory"), (list(range(len(items))), "on disk")]
            for perm in itertools.permutations(range(len(items))):
                orders.append((list(perm), "in memory"))
        elif h == "orders":
            cc = _grid_coords(grid)
            items = [(c, bytes(pl)) for c, pl in zip(cc, inp["payloads"])]
            unstored = None
            orders = [(list(range(len(cc))), "in memory"), (list(inp["order"][0]), inp["order"][1])]
        else:
            cc = _grid_coords(grid)
            items = [(eval(c), bytes(pl)) for c, pl in inp["payloads"].items()]
            unstored = tuple(inp["missing"])
            n = len(items)
            rnd = random.Random(cfg["seed"])
            sh = list(range(n))
            rnd.shuffle(sh)
            orders = [(list(range(n)), "in memory"), (list(range(n))[::-1], "on disk"), (sh, "in memory")]
        try:
            imgs = [run(o, s, td, items) for o, s in orders]
        except Exception as e:
            return True, f"writer raised {type(e).__name__}: {e}"
        for (d, img), (o, s) in zip(imgs[1:], orders[1:]):
            if img != imgs[0][1]:
                return True, f"shard files differ between store order {orders[0][0]} and {o} ({s})"
        acc = sfa.ShardedFileAccessor(imgs[-1][0] if h == "orders" else imgs[0][0])
        acc.info = copy.deepcopy(info)
        for cc_, pl in items:
            try:
                got = acc.fetch_chunk(S.KEY, cc_)
            except Exception as e:
                return True, f"fetch_chunk{cc_} raised {type(e).__name__}: {e}"
            if got != pl:
                return True, f"fetch_chunk{cc_} returned {got!r}, stored {pl!r}"
        try:
            got = acc.fetch_chunk(S.KEY, unstored) if unstored is not None else b""
        except Exception:
            got = b""
        if len(got):
            return True, f"never-stored chunk {unstored} reported {len(got)} bytes"
    return False, "order independence and read-back hold on the real code"
