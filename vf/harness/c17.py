"""C17 - mesh formats: precomputed layout, reader robustness, affine transform orientation."""
import builtins
import struct as real_struct

import numpy as real_np
import z3

from .. import load
from ..findings import regions_for
from ..sarray import NPProxy, SArray, SFB, SRl, SBV, SIV, elem_eq
from ..sbytes import SBytes, StructProxy, Part
from ..values import SInt

PROPERTY = "C17"
MODULES = ["mesh"]
FUNCTIONS = ["mesh.save_mesh_as_neuroglancer_vtk", "mesh.save_mesh_as_precomputed", "mesh.read_precomputed_mesh", "mesh.affine_transform_mesh",
             "scripts.mesh_to_precomputed.mesh_file_to_precomputed", "scripts.link_mesh_fragments.make_mesh_fragment_links"]
STUBS = ["np -> NPProxy; struct -> StructProxy; file objects -> in-memory symbolic byte streams",
         "float32 vertices that are only moved are opaque 32-bit patterns (bit-exact round trip incl. NaN and -0)",
         "affine algebra over exact reals (z3 Real): np.dot = exact sum of products, np.linalg.det = cofactor formula"]
ASSUMPTIONS = ["the affine clauses are about the real-arithmetic meaning of the formulas (float rounding excluded)"]
EXPLANATION = ("Vertices, triangle indices and every byte offered to the reader are symbolic. The writer's output is compared "
               "byte-for-byte with the layout of the format text; the reader must return exactly when the layout is "
               "consistent and every index is < N, otherwise raise InvalidMeshDataError; the affine transform is proved "
               "equal to R v + t with the winding reversed iff det R < 0, and the signed volume of an arbitrary triangle "
               "w.r.t. an arbitrary point keeps its sign (polynomial identity over the reals).")
BOUNDS = {"quick": "mesh-to-precomputed also through main(argv) with --coord-transform (12- and 16-element, mirroring and not); "
                   "N in 0..3 vertices, M in 0..2 triangles (all values); reader: every byte string of every length 0..44; "
                   "affine: all real 3x4 / 4x4 matrices, one arbitrary triangle and reference point",
          "thorough": "reader lengths up to 64; N<=4, M<=3"}
OUTSIDE = ["VTK export: the digits np.savetxt's '%.9g' produces for a float (each finite value is one number token), non-finite values, "
           "titles containing carriage returns / Unicode line separators, attributes with more than 4 components", "GIfTI parsing (nibabel)", "near-zero float determinants",
           "mm->nm scaling when 10^6 * coordinate is not exactly representable in float32 (float rounding)"]


def configs(tier, seed):
    out = []
    nm = [(0, 0), (1, 0), (1, 1), (3, 1), (3, 2), (2, 2)] + ([(4, 3), (4, 1)] if tier == "thorough" else [])
    for N, M in nm:
        out.append(dict(harness="roundtrip", N=N, M=M, cost=1))
        if N > 1 or M > 1:
            # arrays that reach the writer Fortran-contiguous (e.g. the transposed product of affine_transform_mesh)
            out.append(dict(harness="roundtrip", N=N, M=M, layout="F", cost=1))
    for L in range(0, 45 if tier == "quick" else 65):
        out.append(dict(harness="reader", L=L, cost=1 + L // 8, max_paths=100000, wall=1200))
    for rows in (3, 4):
        out.append(dict(harness="affine", rows=rows, cost=3, timeout_ms=120000))
    for N, e in ((1, 0), (2, -2), (3, 3)):
        out.append(dict(harness="mm_to_nm", N=N, e=e, cost=1))
    # through the command line with --coord-transform (mirroring and non-mirroring, 12 and 16 elements)
    out.append(dict(harness="mm_to_nm", N=3, e=0, transform="2,0,0,1,0,-1,0,0,0,0,0.5,3", cost=2))
    out.append(dict(harness="mm_to_nm", N=2, e=-1, transform="0,1,0,-2,1,0,0,0.5,0,0,-1,4,0,0,0,1", cost=2))
    out.append(dict(harness="mm_to_nm", N=2, e=0, ptype="int32", transform="0.5,0,0,0.25,0,1,0,0,0,0,-1.5,3", cost=2))    # integer point set, fractional result
    out.append(dict(harness="fragments", cost=1))
    for N, M, A in ((0, 0, 1), (1, 1, 2), (2, 1, 3), (3, 2, 3)) + (((4, 3, 4),) if tier == "thorough" else ()):
        out.append(dict(harness="vtk", N=N, M=M, A=A, cost=2 + A, none_attrs=(N == 1)))
    out.append(dict(harness="vtk", N=2, M=2, A=1, tdtype="uint32", cost=2))
    out.append(dict(harness="vtk", N=1, M=1, A=1, sym_title=True, cost=3))
    return out


class ByteStream:
    def __init__(self, data=None):
        self.data = SBytes(data if data is not None else [])
        self.pos = 0

    def write(self, b):
        self.data = self.data + (b if isinstance(b, SBytes) else SBytes(b))
        return len(b)

    def read(self, n=-1):
        from ..core import cur
        L = len(self.data) - self.pos
        if isinstance(n, SInt):
            ctx = cur()
            if ctx.decide((n > L).e):
                n = L
            elif ctx.decide((n < 0).e):
                n = -1
            else:
                n = n.__index__()
        if n is None or n < 0:
            out = self.data[self.pos:]
        else:
            out = self.data[self.pos:self.pos + n]
        self.pos += len(out)
        return out          # always symbolic-capable bytes (also when empty)


def _mods():
    return load.patch("mesh", np=NPProxy(), struct=StructProxy())


def H_roundtrip(ctx, cfg):
    mesh = _mods()
    N, M = cfg["N"], cfg["M"]
    if cfg.get("layout") == "F":
        verts = SArray.fresh((3, N), "float32", "v").T
        tris = SArray.fresh((3, M), "uint32", "t").T
    else:
        verts = SArray.fresh((N, 3), "float32", "v")
        tris = SArray.fresh((M, 3), "uint32", "t")
    ctx.input("vertices", [x.e for x in verts.a.ravel()])
    ctx.input("triangles", [x.e for x in tris.a.ravel()])
    f = ByteStream()
    mesh.save_mesh_as_precomputed(f, verts, tris)
    want = list(real_struct.pack("<I", N))
    for x in list(verts.a.ravel()) + list(tris.a.ravel()):
        want += [Part(x, i, 4) for i in range(4)]
    want = SBytes(want)
    ctx.sample(dict(N=N, M=M, file_len=len(f.data)))
    ctx.prove(len(f.data) == 4 + 12 * N + 12 * M, "file-length-4+12N+12M", detail=str(len(f.data)))
    if len(f.data) == len(want):
        r = (f.data == want)
        ctx.prove(r if isinstance(r, bool) else r.e, "layout-count-vertices-triangles-little-endian")
    # read back (indices are arbitrary here: the reader may legitimately reject out-of-range ones)
    for t in tris.a.ravel():
        ctx.assume(z3.ULT(t.e, N) if N else False)
    try:
        v2, t2 = mesh.read_precomputed_mesh(ByteStream(f.data))
    except mesh.InvalidMeshDataError:
        ctx.fail("valid-mesh-rejected-by-reader")
        return
    ok = v2.shape == (N, 3) and t2.shape == (M, 3) and v2.dtype == real_np.dtype("float32") and t2.dtype == real_np.dtype("uint32")
    ctx.prove(ok, "read-back-shapes-and-dtypes", detail=f"{v2.shape} {t2.shape} {v2.dtype} {t2.dtype}")
    if ok:
        conds = [elem_eq(a, b) for a, b in zip(list(v2.a.ravel()) + list(t2.a.ravel()), list(verts.a.ravel()) + list(tris.a.ravel()))]
        conds = [z3.BoolVal(c) if isinstance(c, bool) else c for c in conds]
        ctx.prove(z3.And(conds) if conds else True, "read-back-returns-same-vertices-and-triangles")


def H_reader(ctx, cfg):
    mesh = _mods()
    L = cfg["L"]
    bs = [z3.BitVec(f"b{i}", 8) for i in range(L)]
    ctx.input("buf", bs)
    for fid, expr in regions_for(PROPERTY, "reader"):
        ctx.region(fid, eval(expr, {"z3": z3, "b": bs, "L": L}))
    try:
        v, t = mesh.read_precomputed_mesh(ByteStream(bs))
    except mesh.InvalidMeshDataError:
        ctx.ok("InvalidMeshDataError")
        return
    # returned: the layout must be consistent and every index must reference an existing vertex
    N = v.shape[0]
    ctx.sample(dict(L=L, N=N, M=t.shape[0]))
    ctx.prove(L >= 4 + 12 * N and (L - 4 - 12 * N) % 12 == 0 and t.shape == ((L - 4 - 12 * N) // 12, 3) and v.shape == (N, 3),
              "returned-only-for-consistent-layout", detail=f"L={L} N={N} tris={t.shape}")
    nword = z3.Concat(*[bs[i] for i in (3, 2, 1, 0)]) if L >= 4 else None
    if nword is not None:
        ctx.prove(nword == N, "vertex-count-read-from-header")
    idx = [x.e for x in t.a.ravel()]
    if idx:
        ctx.prove(z3.And([z3.ULT(i, N) for i in idx]), "returned-only-if-every-triangle-index-references-an-existing-vertex")


def H_affine(ctx, cfg):
    mesh = _mods()
    rows = cfg["rows"]
    A = real_np.empty((rows, 4), dtype=object)
    names = []
    for i in range(3):
        for j in range(4):
            r = z3.Real(f"a{i}{j}")
            names.append(r)
            A[i, j] = SRl(r)
    if rows == 4:
        for j, v in enumerate((0, 0, 0, 1)):
            A[3, j] = SRl(z3.RealVal(v))
    T = SArray(A, "float64")
    V = real_np.empty((4, 3), dtype=object)      # a triangle (3 vertices) and a reference point
    vs = []
    for i in range(4):
        for j in range(3):
            r = z3.Real(f"v{i}{j}")
            vs.append(r)
            V[i, j] = SRl(r)
    verts = SArray(V, "float64")
    tris = SArray.from_elems([SBV.const(i, "uint32") for i in (0, 1, 2)], "uint32", (1, 3))
    ctx.input("matrix", names)
    ctx.input("points", vs)
    v2, t2 = mesh.affine_transform_mesh(verts, tris, T)
    R = [[A[i, j].r for j in range(3)] for i in range(3)]
    t = [A[i, 3].r for i in range(3)]
    ctx.prove(v2.shape == (4, 3), "vertex-array-shape", detail=str(v2.shape))
    conds = []
    for n in range(4):
        for i in range(3):
            conds.append(v2.a[n, i].r == sum(R[i][j] * V[n, j].r for j in range(3)) + t[i])
    ctx.prove(z3.And(conds), "every-vertex-moved-to-R*v+t")
    det = (R[0][0] * (R[1][1] * R[2][2] - R[1][2] * R[2][1]) - R[0][1] * (R[1][0] * R[2][2] - R[1][2] * R[2][0])
           + R[0][2] * (R[1][0] * R[2][1] - R[1][1] * R[2][0]))
    order = [z3.simplify(x.e).as_long() for x in t2.a.ravel()]
    ctx.sample(dict(rows=rows, triangle_order=order))
    ctx.prove(z3.And(z3.Implies(det < 0, order == [2, 1, 0]), z3.Implies(det > 0, order == [0, 1, 2])),
              "winding-reversed-exactly-when-the-transform-mirrors-space")

    def vol(p0, p1, p2, q):
        a = [p1[i] - p0[i] for i in range(3)]
        b = [p2[i] - p0[i] for i in range(3)]
        c = [q[i] - p0[i] for i in range(3)]
        return (a[0] * (b[1] * c[2] - b[2] * c[1]) - a[1] * (b[0] * c[2] - b[2] * c[0]) + a[2] * (b[0] * c[1] - b[1] * c[0]))
    P = [[V[n, i].r for i in range(3)] for n in range(4)]
    Q = [[v2.a[n, i].r for i in range(3)] for n in range(4)]
    before = vol(P[0], P[1], P[2], P[3])
    after = vol(Q[order[0]], Q[order[1]], Q[order[2]], Q[3])
    k = 1 if order == [0, 1, 2] else -1
    # polynomial identity: the signed volume scales by det R (times -1 for the reversed winding);
    # z3's sum-of-monomials normaliser reduces the difference to 0
    diff = z3.simplify(after - k * det * before, som=True)
    ctx.prove(diff == 0, "signed-volume-after-equals-(+/-)det*signed-volume-before")
    # sign lemma over fresh reals: with the winding reversed exactly when det < 0 the sign is preserved
    D, B = z3.Real("D"), z3.Real("B")
    mirrored = order == [2, 1, 0]
    pre = D < 0 if mirrored else D > 0
    Aft = k * D * B
    ctx.prove(z3.Implies(pre, z3.And(z3.Implies(B > 0, Aft > 0), z3.Implies(B < 0, Aft < 0), z3.Implies(B == 0, Aft == 0))),
              "triangle-orientation-wrt-any-point-is-preserved")


def H_mm_to_nm(ctx, cfg):
    """mesh-to-precomputed: vertices given in millimetres are stored in nanometres (x 10^6), exactly when representable."""
    import types
    from . import _vol as V
    from ..sarray import SDy
    W = V.World()
    N, e = cfg["N"], cfg["e"]
    a = real_np.empty((N, 3), dtype=object)
    ms = []
    for idx in real_np.ndindex(N, 3):
        m = z3.Int("p_" + "_".join(map(str, idx)))
        ctx.assume(z3.And(m > -16, m < 16))          # 10^6 * m * 2^e stays exactly representable in float32
        ms.append(m)
        a[idx] = SDy(m, e, 5, real_np.float32) if cfg.get("ptype", "float32") == "float32" else SIV(m, cfg["ptype"])
    ctx.input("mantissas", ms)
    pts = SArray(a, real_np.dtype(cfg.get("ptype", "float32")))        # GIfTI point sets are float32 by convention, integer types load too
    tris = SArray.from_elems([SBV.const(i % N, "int32") for i in range(3)], "int32", (1, 3))
    gii = types.SimpleNamespace(get_arrays_from_intent=lambda name: [types.SimpleNamespace(data=pts if "POINTSET" in name else tris)])
    mesh = load.patch("mesh", np=W.npx, struct=StructProxy())

    class BytesIO(ByteStream):
        def getvalue(self):
            return self.data
    mod = W.script("mesh_to_precomputed", nibabel=types.SimpleNamespace(load=lambda p: gii), np=W.npx,
                   io=types.SimpleNamespace(BytesIO=BytesIO))
    info = V.make_info("uint32", 1, (2, 2, 2), (2, 2, 2))
    info["type"] = "segmentation"
    W.put_info("/mfs/m", info)
    tr = cfg.get("transform")
    if tr:
        # through main(argv) with --coord-transform (12 or 16 comma-separated numbers)
        load.patch("utils", init_logging_for_cmdline=lambda: None)
        try:
            rc = mod.main(["mesh-to-precomputed", "/in/surf.gii", "/mfs/m", "--no-gzip", "--coord-transform=" + tr])
        except SystemExit as exc:
            rc = exc.code
        ctx.prove(rc in (None, 0), "conversion-succeeds", detail=str(rc))
        if rc not in (None, 0):
            return
    else:
        rc = mod.mesh_file_to_precomputed("/in/surf.gii", "/mfs/m", options={"gzip": False})
        ctx.prove(rc is None, "conversion-succeeds", detail=str(rc))
    stored = W.env.fs.files.get("/mfs/m/mesh/surf")
    if stored is None:
        ctx.fail("mesh-file-stored-under-mesh-dir", detail=str(sorted(W.env.fs.files)))
        return
    import json as _json
    ctx.prove(_json.loads(bytes(W.env.fs.files["/mfs/m/info"].concrete())).get("mesh") == "mesh", "info-gets-the-mesh-key")
    v, t = mesh.read_precomputed_mesh(ByteStream(stored))
    ctx.sample(dict(N=N, exponent=e, file_len=len(stored)))
    conds = []
    if tr:
        from fractions import Fraction
        M = [Fraction(x) for x in tr.split(",")]
        R = [M[4 * r:4 * r + 3] for r in range(3)]
        T = [M[4 * r + 3] for r in range(3)]
        det = (R[0][0] * (R[1][1] * R[2][2] - R[1][2] * R[2][1]) - R[0][1] * (R[1][0] * R[2][2] - R[1][2] * R[2][0])
               + R[0][2] * (R[1][0] * R[2][1] - R[1][1] * R[2][0]))
        for i in range(N):
            ins = [a[i, c].value_num_den() if hasattr(a[i, c], "value_num_den") else (a[i, c].v, 1) for c in range(3)]
            for r in range(3):
                n, d = v.a[i, r].value_num_den()
                # stored = 10^6 * (sum_c R[r][c] * in_c + T[r]); everything scaled to integers
                den = 1
                for (_, od) in ins:
                    den *= od
                lcm = 1
                for q in R[r] + [T[r]]:
                    lcm = lcm * q.denominator
                rhs = sum(int(R[r][c] * lcm) * ins[c][0] * (den // ins[c][1]) for c in range(3)) + int(T[r] * lcm) * den
                conds.append(n * den * lcm == 1000000 * rhs * d)
        ctx.prove(z3.And(conds), "stored-vertex-is-10^6-times-the-transformed-vertex")
        want_order = [2, 1, 0] if det < 0 else [0, 1, 2]
        tri_in = [i % N for i in range(3)]
        got_tri = [t.a[0, k] for k in range(3)]
        ctx.prove(z3.And([g.e == tri_in[want_order[k]] for k, g in enumerate(got_tri)]),
                  "winding-reversed-exactly-when-the-transform-mirrors", detail=f"det {det}")
        return
    for idx in real_np.ndindex(N, 3):
        n, d = v.a[idx].value_num_den()
        on, od = a[idx].value_num_den()
        conds.append(n * od == 1000000 * on * d)
    ctx.prove(z3.And(conds), "stored-vertex-is-10^6-times-the-input-vertex")


def H_vtk(ctx, cfg):
    """VTK export: the text written for an arbitrary attribute set parses with Neuroglancer's grammar and
    carries exactly the vertices, triangles and attribute values given."""
    from . import _vtk as K
    N, M = cfg["N"], cfg["M"]
    mesh = _mods()
    verts = SArray.fresh((N, 3), "float32", "v")
    tris = SArray.fresh((M, 3), cfg.get("tdtype", "int32"), "t")
    tri_terms = [e.to_sint("int").e for e in tris.a.ravel()]
    for t in tri_terms:
        ctx.assume(z3.And(t >= 0, t < N))            # triangles index existing vertices
    ctx.input("tris", tri_terms)
    # attribute set: symbolic number of attributes (0..A), each of a symbolic shape kind
    #   kind 0: (N,)   kind 1..4: (N, kind)
    na = z3.Int("n_attributes")
    ctx.assume(z3.And(na >= 0, na <= cfg["A"]))
    n_attr = ctx.concretize(na)
    kinds, attrs, expect = [], [], []
    for i in range(n_attr):
        kv = z3.Int(f"kind_{i}")
        ctx.assume(z3.And(kv >= 0, kv <= 4))
        kd = ctx.concretize(kv)
        kinds.append(kd)
        shape = (N,) if kd == 0 else (N, kd)
        vals = SArray.fresh(shape, "float32", f"a{i}_")
        attrs.append({"name": f"attr{i}", "values": vals})
        expect.append((f"attr{i}", max(kd, 1), list(vals.a.ravel())))
    ctx.input("kinds", kinds)
    L = z3.Int("title_len")
    ctx.input("title_len", L)
    if cfg.get("sym_title"):
        ctx.assume(z3.And(L >= 0, L <= 400))
        title = K.SymText([K.TextSeg("title", L)])
    else:
        ctx.assume(L == 4)
        title = "mesh"
    out = K.TextStream()
    use_none = n_attr == 0 and cfg.get("none_attrs", False)
    try:
        mesh.save_mesh_as_neuroglancer_vtk(out, verts, tris, vertex_attributes=None if use_none else attrs, title=title)
    except AssertionError as e:
        ctx.fail("writer-accepts-valid-input", detail=f"AssertionError {e}", exc=e)
        return
    ctx.sample(dict(N=N, M=M, kinds=kinds, parts=len(out.parts)))
    try:
        got = K.parse_vtk(ctx, out.parts)
    except K.VTKParseError as e:
        ctx.fail("export-parses-with-the-neuroglancer-grammar", detail=str(e))
        return
    ctx.prove(got["num_vertices"] == N, "vertex-count")
    ok_pts = len(got["points"]) == 3 * N and all(isinstance(tk, K.FloatTok) for tk in got["points"])
    ctx.prove(ok_pts and z3.And([elem_eq(tk.elem, e) for tk, e in zip(got["points"], verts.a.ravel())]),
              "points-are-the-vertices-in-order")
    flat = [x for tr in got["triangles"] for x in tr]
    ctx.prove(len(got["triangles"]) == M and z3.And([(x == t) if not isinstance(x, int) else (t == x) for x, t in zip(flat, tri_terms)]),
              "faces-are-the-triangles-in-order")
    ctx.prove([(n, c) for n, c, _ in got["attributes"]] == [(n, c) for n, c, _ in expect],
              "attribute-names-and-component-counts", detail=str([(n, c) for n, c, _ in got["attributes"]]))
    for (n, c, toks), (_, _, vals) in zip(got["attributes"], expect):
        okv = len(toks) == len(vals) and all(isinstance(tk, K.FloatTok) for tk in toks)
        ctx.prove(okv and z3.And([elem_eq(tk.elem, e) for tk, e in zip(toks, vals)]), f"attribute-values-{n}")
    # title line: at most 255 characters, starts with the given title (truncated)
    tl = got["title_line"]
    if not cfg.get("sym_title"):
        ctx.prove("".join(map(str, tl)).startswith("mesh. ") and len(tl) <= 255, "title-line-starts-with-the-title")
        return
    tot = z3.IntVal(0)
    for fr in tl:
        tot = tot + (fr.length if isinstance(fr, K.TextSeg) else 1)
    ctx.prove(tot <= 255, "title-line-at-most-255-characters")
    first = tl[0] if tl else None
    ctx.prove(z3.Implies(L > 0, z3.BoolVal(isinstance(first, K.TextSeg)) if not isinstance(first, K.TextSeg)
                         else first.length == z3.If(L <= 255, L, 255)), "title-line-starts-with-the-title")


def H_fragments(ctx, cfg):
    """link-mesh-fragments: one JSON file per label listing exactly the fragments given (enumerated tables)."""
    from . import _vol as V
    import json as _json
    W = V.World()
    bad = []
    for colon in (False, True):
        for gz in (False, True):
            table = [("7", ["a", "b:0"]), ("12", []), ("3", ["only"]), ("9007199254740993", ["big"]), ("18446744073709551615", ["max", "max2"])] + ([("7", ["second"])] if gz else [])     # a repeated label only in the API variant
            url = f"/mfs/f{int(colon)}{int(gz)}"
            info = V.make_info("uint32", 1, (2, 2, 2), (2, 2, 2))
            info["mesh"] = "mesh"
            W.put_info(url, info)
            csv_text = "".join(",".join([lab] + frs) + "\r\n" for lab, frs in table)
            W.env.fs.mkdir_p("/in")
            W.env.fs.files["/in/links.csv"] = __import__("vf.sbytes", fromlist=["SBytes"]).SBytes(csv_text.encode())
            mod = W.script("link_mesh_fragments", open=W.env.open)
            try:
                if gz:
                    rc = mod.make_mesh_fragment_links("/in/links.csv", url, no_colon_suffix=colon, options={"gzip": gz})
                else:
                    # through the command line (option plumbing, exit status)
                    load.patch("utils", init_logging_for_cmdline=lambda: None)
                    rc = mod.main(["link-mesh-fragments", "/in/links.csv", url, "--no-gzip"] + (["--no-colon-suffix"] if colon else []))
                    if rc != 0:
                        bad.append([colon, gz, "exit status", rc])
            except Exception as e:
                # the duplicated label must be refused or overwritten, not crash half-way... storing twice without overwrite fails
                rc = f"{type(e).__name__}"
            expect = {}
            for lab, frs in table:
                expect.setdefault(lab, frs)          # store_file without overwrite: the first entry of a label stays
            for lab, frs in expect.items():
                name = f"{url}/mesh/{lab}" + ("" if colon else ":0")
                got = W.env.fs.files.get(name)
                if got is None or _json.loads(bytes(got.concrete())) != {"fragments": frs}:
                    bad.append([colon, gz, lab, None if got is None else bytes(got.concrete()).decode()])
    ctx.input("bad", bad)
    ctx.sample("4 option sets x 6-line fragment table (labels up to 2^64-1)")
    ctx.prove(not bad, "fragment-link-files-list-exactly-the-fragments-of-each-label", detail=str(bad[:3]))


# --------------------------------------------------------------------- replay

def replay(cfg, cex):
    import io
    mesh = load.mod("mesh")
    inp = cex["inputs"]
    h = cfg["harness"]
    if h == "reader":
        buf = bytes(inp["buf"])
        try:
            v, t = mesh.read_precomputed_mesh(io.BytesIO(buf))
        except mesh.InvalidMeshDataError:
            return False, "InvalidMeshDataError (allowed)"
        except Exception as e:
            return True, f"reader raised {type(e).__name__}: {e} on {buf.hex()}"
        N = len(v)
        L = len(buf)
        if not (L >= 4 + 12 * N and (L - 4 - 12 * N) % 12 == 0):
            return True, f"reader returned for inconsistent layout ({buf.hex()})"
        if t.size and builtins.int(t.max()) >= N:
            return True, f"reader accepted triangle index {builtins.int(t.max())} with only {N} vertices ({buf.hex()})"
        return False, "consistent mesh returned"
    if h == "roundtrip":
        N, M = cfg["N"], cfg["M"]
        verts = real_np.array(inp["vertices"], dtype=real_np.uint32).view(real_np.float32).reshape(N, 3)
        tris = real_np.array(inp["triangles"], dtype=real_np.uint32).reshape(M, 3)
        if cfg.get("layout") == "F":
            verts, tris = real_np.asfortranarray(verts), real_np.asfortranarray(tris)
        f = io.BytesIO()
        mesh.save_mesh_as_precomputed(f, verts, tris)
        want = real_struct.pack("<I", N) + verts.astype("<f4").tobytes() + tris.astype("<u4").tobytes()
        if f.getvalue() != want:
            return True, "written bytes differ from the format layout"
        try:
            v2, t2 = mesh.read_precomputed_mesh(io.BytesIO(f.getvalue()))
        except Exception as e:
            return True, f"reader raised {type(e).__name__}: {e} on a valid mesh"
        return (v2.tobytes() != verts.tobytes() or t2.tobytes() != tris.tobytes()), "round trip"
    if h == "mm_to_nm":
        import os
        import tempfile
        import nibabel
        import nibabel.gifti as gi
        from fractions import Fraction
        N, e = cfg["N"], cfg["e"]
        pts = real_np.array([float(Fraction(m) * Fraction(2) ** e) for m in inp["mantissas"]], dtype=cfg.get("ptype", "float32")).reshape(N, 3)
        tris = real_np.array([[i % N for i in range(3)]], dtype=real_np.int32)
        mod = load.mod("scripts.mesh_to_precomputed")
        pio = load.mod("precomputed_io")
        acc_mod = load.mod("accessor")
        with tempfile.TemporaryDirectory() as td:
            fn = os.path.join(td, "surf.gii")
            nibabel.save(gi.GiftiImage(darrays=[gi.GiftiDataArray(pts, intent="NIFTI_INTENT_POINTSET"),
                                                gi.GiftiDataArray(tris, intent="NIFTI_INTENT_TRIANGLE")]), fn)
            ds = os.path.join(td, "ds")
            from . import _vol as V
            info = V.make_info("uint32", 1, (2, 2, 2), (2, 2, 2))
            info["type"] = "segmentation"
            pio.get_IO_for_new_dataset(info, acc_mod.get_accessor_for_url(ds, {}))
            tr = cfg.get("transform")
            try:
                if tr:
                    try:
                        rc = mod.main(["mesh-to-precomputed", fn, ds, "--no-gzip", "--coord-transform=" + tr])
                    except SystemExit as exc:
                        rc = exc.code
                    if rc not in (None, 0):
                        return True, f"mesh-to-precomputed --coord-transform={tr} exited with {rc}"
                else:
                    mod.mesh_file_to_precomputed(fn, ds, options={"gzip": False})
                with open(os.path.join(ds, "mesh", "surf"), "rb") as f:
                    v, t = mesh.read_precomputed_mesh(f)
            except Exception as exc:
                return True, f"mesh conversion failed: {type(exc).__name__}: {exc}"
            if tr:
                M = real_np.array([float(x) for x in tr.split(",")])[:12].reshape(3, 4)
                want = ((pts.astype(real_np.float64) @ M[:, :3].T + M[:, 3]) * 1e6).astype(real_np.float32)
                wt = tris[:, ::-1] if real_np.linalg.det(M[:, :3]) < 0 else tris
                if not real_np.array_equal(v, want):
                    return True, f"--coord-transform={tr}: stored vertices {v.ravel().tolist()}, expected 10^6 x (R v + t) = {want.ravel().tolist()}"
                return (not real_np.array_equal(t, wt)), f"--coord-transform={tr}: stored triangles {t.tolist()}, expected {wt.tolist()}"
            want = (pts.astype(real_np.float64) * 1e6).astype(real_np.float32)
            return (not real_np.array_equal(v, want)), f"stored vertices {v.ravel().tolist()} for input {pts.ravel().tolist()} mm (expected x 10^6)"
    if h == "vtk":
        import io
        from . import _vtk as K
        N, M = cfg["N"], cfg["M"]
        kinds = inp["kinds"]
        verts = (real_np.arange(N * 3, dtype=real_np.float32).reshape(N, 3) + 0.25) * real_np.float32(-1.5)
        tris = real_np.array(inp["tris"], dtype=cfg.get("tdtype", "int32")).reshape(M, 3)
        attrs, expect = [], []
        for i, kd in enumerate(kinds):
            shape = (N,) if kd == 0 else (N, kd)
            vals = (real_np.arange(N * max(kd, 1), dtype=real_np.float32).reshape(shape) + 100 * (i + 1)) / real_np.float32(3)
            attrs.append({"name": f"attr{i}", "values": vals})
            expect.append((f"attr{i}", max(kd, 1), [float(x) for x in vals.ravel()]))
        f = io.StringIO()
        try:
            mesh.save_mesh_as_neuroglancer_vtk(f, verts, tris, vertex_attributes=(None if not kinds and cfg.get("none_attrs") else attrs),
                                               title="t" * int(inp["title_len"]))
        except AssertionError as e:
            return True, f"writer refused valid input: AssertionError {e}"
        text = f.getvalue()
        try:
            got = K.parse_vtk(None, [text])
        except K.VTKParseError as e:
            return True, f"attributes of shapes {[(N,) if k == 0 else (N, k) for k in kinds]}: export does not parse: {e}"
        f32 = lambda xs: [float(real_np.float32(x)) for x in xs]
        if got["num_vertices"] != N or f32(got["points"]) != [float(x) for x in verts.ravel()]:
            return True, f"parsed points {got['points']} differ from the vertices"
        if got["triangles"] != tris.tolist():
            return True, f"parsed faces {got['triangles']} differ from {tris.tolist()}"
        pa = [(n, c, f32(v)) for n, c, v in got["attributes"]]
        if pa != expect:
            return True, f"parsed attributes {pa} differ from {expect}"
        tl = text.split("\n")[1]
        if len(tl) > 255 or not tl.startswith("t" * min(255, int(inp["title_len"]))):
            return True, f"title line {tl!r} (length {len(tl)})"
        return False, "VTK export parses and carries the input on the real code"
    if h == "fragments":
        import json as _json
        import os
        import tempfile
        mod = load.mod("scripts.link_mesh_fragments")
        pio = load.mod("precomputed_io")
        acc_mod = load.mod("accessor")
        from . import _vol as V
        table = [("7", ["a", "b:0"]), ("12", []), ("3", ["only"]), ("9007199254740993", ["big"]), ("18446744073709551615", ["max", "max2"])]
        with tempfile.TemporaryDirectory() as td:
            info = V.make_info("uint32", 1, (2, 2, 2), (2, 2, 2))
            info["mesh"] = "mesh"
            pio.get_IO_for_new_dataset(info, acc_mod.get_accessor_for_url(td, {}))
            csvf = os.path.join(td, "links.csv")
            with open(csvf, "w", newline="") as f:
                f.write("".join(",".join([lab] + frs) + "\r\n" for lab, frs in table))
            try:
                try:
                    rc = mod.main(["link-mesh-fragments", csvf, td, "--no-gzip", "--no-colon-suffix"])
                except SystemExit as e:
                    rc = e.code
            except Exception as e:
                return True, f"link-mesh-fragments raised {type(e).__name__}: {e} on a well-formed table"
            if rc != 0:
                return True, f"link-mesh-fragments exited with status {rc} on a well-formed table"
            for lab, frs in table:
                try:
                    with open(os.path.join(td, "mesh", lab)) as f:
                        got = _json.load(f)
                except OSError as e:
                    return True, f"label {lab}: no link file ({e})"
                if got != {"fragments": frs}:
                    return True, f"label {lab}: link file lists {got}, expected fragments {frs}"
        return False, "fragment links correct on the real code"
    if h == "affine":
        from fractions import Fraction
        A = real_np.array([float(Fraction(x)) for x in inp["matrix"]]).reshape(3, 4)
        P = real_np.array([float(Fraction(x)) for x in inp["points"]]).reshape(4, 3)
        v2, t2 = mesh.affine_transform_mesh(P, real_np.array([[0, 1, 2]]), A)
        det = real_np.linalg.det(A[:, :3])
        exp = P @ A[:, :3].T + A[:, 3]
        if not real_np.allclose(v2, exp):
            return True, "vertices not moved to R v + t"
        flipped = list(t2[0]) == [2, 1, 0]
        return (flipped != (det < 0)), f"det={det} flipped={flipped}"
    return False, "unknown harness"
