"""C18 - I/O failures and interrupted writes never yield silently wrong data."""
import builtins
import copy
import errno
import gzip as real_gzip
import json
import zlib as real_zlib

import numpy as real_np
import z3

from .. import load
from ..findings import regions_for
from ..modelfs import Crash, Env, GzBlob
from ..modelhttp import ModelServer, make_requests
from ..sarray import NPProxy, SArray
from ..sbytes import SByteArray, SBytes, StructProxy
from ..values import SInt
from . import _shard as S
from . import _vol as V

PROPERTY = "C18"
MODULES = ["file_accessor", "sharded_file_accessor", "http_accessor", "sharded_http_accessor", "precomputed_io", "chunk_encoding"]
FUNCTIONS = ["file_accessor.FileAccessor.store_file/store_chunk/fetch_file/fetch_chunk/file_exists",
             "sharded_file_accessor.ShardedFileAccessor.store_chunk/close/fetch_chunk, Shard.close, MiniShard.*",
             "precomputed_io.PrecomputedIO.read_chunk + decoders on leftover partial files",
             "http_accessor.HttpAccessor.fetch_file/fetch_chunk/file_exists and sharded_http_accessor.ShardedHttpAccessor.fetch_chunk under request faults"]
STUBS = ["model file system with a fault plan: call #n of the operation fails with errno e / the process is interrupted before "
         "call #n, after which any prefix of what open writers had written survives (symbolic prefix length)",
         "gzip image model: an unfinished image raises EOFError when read (as the real module does for a truncated stream)",
         "model static-file server behind a requests.Session stand-in, with a request fault plan (replays use a real "
         "http.server on the loopback interface with the same plan)"]
ASSUMPTIONS = ["a failed or interrupted system call has no effect other than the partial content of files open for writing",
               "appending to an existing shard file in a later session is not supported by the tool and not exercised"]
EXPLANATION = ("Every file-system call an operation makes is a fault site: the solver-driven case split selects the failing call "
               "and the errno; the operation must raise DataAccessError or an OSError (never return normally, never another "
               "exception type) and the chunks stored earlier must still read back equal (symbolic contents). For "
               "interruptions the surviving prefix length is symbolic; a fresh reader must decode the correct array or raise "
               "a data-access / format / OS error, never a wrong array. For the HTTP accessors every request of a fetch / probe is a "
               "fault site of the model server (one request or all later ones answered 401/403/404/429/500/502/503/504, a reset "
               "connection, a short / over-long / whole-file reply to a Range request): the call must raise DataAccessError or "
               "return exactly the local bytes, never the error page.")
BOUNDS = {"quick": "datasets with 2 chunks stored + 1 operation (store_chunk, store_file, fetch_chunk, fetch_file, file_exists, sharded "
                   "close); every call site x {ENOSPC, EACCES, EIO, ENOENT}; file layouts flat/deep x gzip on/off; sharded (1,1,0); "
                   "interruption before every call of a chunk write (raw and compressed_segmentation, gzip on/off, overwrite of an "
                   "existing chunk) and of Shard.close, every surviving prefix length; HTTP: every request index x fault kind of plain "
                   "and sharded reads (the C14 quick grid)",
          "thorough": "more layouts and errnos (EDQUOT, EROFS, EMFILE, ENAMETOOLONG, ENOTDIR, EFBIG); sharded faults under 3 more sharding specs x both writers; interrupted sharded close under 5 sharding specs x {in memory, on disk}; HTTP request faults on the C14 thorough grid"}
OUTSIDE = ["real kernel behaviour (partial write(2), fsync ordering, torn sectors beyond prefix truncation)", "JPEG",
           "HTTP faults other than one / all later requests answered 404, 403, 500, 503 or a reset connection"]

ERRNOS = [errno.ENOSPC, errno.EACCES, errno.EIO, errno.ENOENT]
# errors with which a probing stat() says "there is no such file" (pathlib treats exactly these as a negative answer)
NO_SUCH_FILE = (errno.ENOENT, errno.ENOTDIR, errno.EBADF, errno.ELOOP)
MORE_ERRNOS = [errno.EDQUOT, errno.EROFS, errno.EMFILE, errno.ENAMETOOLONG, errno.ENOTDIR, errno.EFBIG]      # thorough tier
CH = [(0, 2, 0, 2, 0, 1), (2, 4, 0, 2, 0, 1), (0, 2, 2, 3, 0, 1)]


_HTTP = {"plain_fault": "http_fault", "sharded_fault": "http_sharded_fault"}


def H_http_fault(ctx, cfg):
    from . import c14
    return c14.H_plain_fault(ctx, cfg)


def H_http_sharded_fault(ctx, cfg):
    from . import c14
    return c14.H_sharded_fault(ctx, cfg)


def configs(tier, seed):
    out = []
    for flat in (False, True):
        for gz in (False, True):
            for op in ("store_chunk_new", "store_chunk_over", "store_file", "fetch_chunk", "fetch_file", "file_exists"):
                out.append(dict(harness="fault_file", flat=flat, gzip=gz, op=op, cost=2))
    out.append(dict(harness="fault_sharded", strategy="in memory", cost=4, wall=900))
    out.append(dict(harness="fault_sharded", strategy="on disk", cost=6, wall=900))
    if tier == "thorough":
        for strategy in ("in memory", "on disk"):
            for spec in ([1, 1, 0, "gzip", "gzip"], [0, 2, 0, "raw", "gzip"], [1, 1, 1, "gzip", "raw"]):
                out.append(dict(harness="fault_sharded", strategy=strategy, spec=spec, more_errnos=True, cost=8, wall=1500))
        for flat in (False, True):
            for gz in (False, True):
                for op in ("store_chunk_new", "store_chunk_over", "store_file", "fetch_chunk", "fetch_file", "file_exists"):
                    out.append(dict(harness="fault_file", flat=flat, gzip=gz, op=op, more_errnos=True, cost=3))
    for enc in ("raw", "compressed_segmentation"):
        for gz in (False, True):
            for over in (False, True):
                out.append(dict(harness="crash_file", enc=enc, gzip=gz, over=over, cost=4, wall=900, max_paths=20000))
    out.append(dict(harness="crash_sharded", cost=10, wall=1500, max_paths=40000))
    if tier == "thorough":
        # interrupted close under other sharding parameters (several shard files, compressed index / data) and the
        # spill-to-disk writer
        for spec in ([1, 0, 0, "raw", "raw"], [0, 1, 0, "raw", "raw"], [1, 1, 0, "gzip", "raw"], [0, 0, 0, "raw", "gzip"], [1, 0, 1, "gzip", "gzip"]):
            for strategy in ("in memory", "on disk"):
                if spec == [1, 0, 0, "raw", "raw"] and strategy == "in memory":
                    continue
                out.append(dict(harness="crash_sharded", spec=spec, strategy=strategy, cost=10, wall=1500, max_paths=40000))
    # network failures of the HTTP accessors: the request-fault harnesses of C14 (same model server, same fault plan:
    # one or all later requests answered 404/403/500/503 or with a reset connection), decided here for this property too
    from . import c14
    for c in c14.configs(tier, seed):
        if c["harness"] in _HTTP:
            out.append(dict(c, harness=_HTTP[c["harness"]]))
    return out


def _allowed_io_error(e, DataAccessError):
    return isinstance(e, (DataAccessError, OSError))


def _file_world(cfg):
    env = Env()
    fa = load.patch("file_accessor", pathlib=env.pathlib, os=env.os, gzip=env.gzip, open=env.open)
    acc = fa.FileAccessor("/mfs/ds", flat=cfg["flat"], gzip=cfg["gzip"])
    return env, fa, acc


def H_fault_file(ctx, cfg):
    env, fa, acc = _file_world(cfg)
    DataAccessError = load.mod("accessor").DataAccessError
    p0, p1 = S.payload("a", 3), S.payload("b", 2)
    acc.store_chunk(p0, "k0", CH[0])
    acc.store_chunk(p1, "k0", CH[1])
    acc.store_file("info", b'{"x": 1}', mime_type="application/json")
    new = S.payload("n", 2)
    ctx.input("payloads", [list(p0.bs), list(p1.bs), list(new.bs)])
    ops = {
        "store_chunk_new": lambda: acc.store_chunk(new, "k0", CH[2]),
        "store_chunk_over": lambda: acc.store_chunk(new, "k0", CH[1]),
        "store_file": lambda: acc.store_file("mesh/x", new, overwrite=True),
        "fetch_chunk": lambda: acc.fetch_chunk("k0", CH[0]),
        "fetch_file": lambda: acc.fetch_file("info"),
        "file_exists": lambda: acc.file_exists("info"),
    }
    swallowed = []

    def op():
        # the operation, followed by what the garbage collector does to file objects it left open (their close is
        # deferred and a failure there is silently dropped)
        r_ = ops[cfg["op"]]()
        swallowed[:] = env.fs.collect_unclosed()
        return r_
    # count the calls of a clean run on a copy of the state
    snap_files, snap_dirs = dict(env.fs.files), set(env.fs.dirs)
    c0 = env.fs.calls
    op()
    n_calls = env.fs.calls - c0
    env.fs.files, env.fs.dirs = dict(snap_files), set(snap_dirs)
    ni = SInt.var("call", "int")
    ctx.assume(z3.And(ni.e >= 0, ni.e < n_calls))
    ei = SInt.var("errno", "int")
    errnos = ERRNOS + (MORE_ERRNOS if cfg.get("more_errnos") else [])
    ctx.assume(z3.And(ei.e >= 0, ei.e < len(errnos)))
    n, e = ni.__index__(), errnos[ei.__index__()]
    fault = [n, errno.errorcode[e], None, None]
    ctx.input("fault", fault)
    site = None
    env.fs.fail_at = (env.fs.calls + n, e)
    log0 = len(env.fs.log)

    def _site():
        st = env.fs.log[log0 + n] if len(env.fs.log) > log0 + n else None
        if st:
            fault[2] = st[0]
            fault[3] = sum(1 for x in env.fs.log[log0:log0 + n] if x[0] == st[0])     # occurrence among calls of the same kind
        return st
    try:
        r = op()
    except Exception as exc:
        env.fs.fail_at = None
        site = _site()
        if type(exc).__name__ in ("OutsideModel", "Inconclusive"):
            raise
        ctx.sample(dict(op=cfg["op"], site=site, errno=errno.errorcode[e], raised=type(exc).__name__))
        if not _allowed_io_error(exc, DataAccessError):
            ctx.fail("io-failure-surfaced-as-unrelated-exception", detail=f"{cfg['op']} call {n} {site} {errno.errorcode[e]}: {type(exc).__name__}: {exc}")
            return
        ctx.ok("io-failure-reported-as-" + ("DataAccessError" if isinstance(exc, DataAccessError) else "OSError"))
    else:
        env.fs.fail_at = None
        site = _site()
        # returned normally although a call failed: only acceptable when the failing call was a probe whose error
        # pathlib itself treats as "no such file" and the result is still right
        if swallowed and cfg["op"].startswith("store"):
            ctx.fail("store-returned-normally-although-a-call-failed",
                     detail=f"{cfg['op']}: a file was left open; its deferred close failed with {errno.errorcode[e]} and the error was dropped ({swallowed[0][0]})")
            return
        if cfg["op"] in ("fetch_chunk", "fetch_file"):
            want = p0 if cfg["op"] == "fetch_chunk" else SBytes(b'{"x": 1}')
            g = r if isinstance(r, SBytes) else SBytes(r)
            ok = (g == want) if len(g) == len(want) else False
            ctx.prove(ok if isinstance(ok, bool) else ok.e, "operation-returned-normally-despite-failed-call-with-right-data", detail=str(site))
        elif cfg["op"] == "file_exists":
            # a probe failing with ENOENT *is* the operating system saying "no such file"
            ctx.prove(r is True or e in NO_SUCH_FILE, "probe-returned-despite-failed-call-with-right-answer", detail=f"{site} -> {r}")
        else:
            ctx.fail("store-returned-normally-although-a-call-failed", detail=f"{cfg['op']} call {n} {site} {errno.errorcode[e]}")
            return
    # everything stored earlier is still there and unchanged (the overwritten chunk excepted)
    reader = fa.FileAccessor("/mfs/ds", flat=not cfg["flat"], gzip=cfg["gzip"])
    for cc, pl in ((CH[0], p0), (CH[1], p1)):
        if cc == CH[1] and cfg["op"] == "store_chunk_over":
            # the chunk being replaced: its old content must survive a failure that happens before the
            # file is (re)opened for writing
            if not (site and (site[0] == "makedirs" or site[0].startswith(("open:", "gzopen:")))):
                continue
        try:
            got = reader.fetch_chunk("k0", cc)
        except Exception as exc:
            ctx.fail("earlier-chunk-no-longer-readable", detail=f"{cc}: {type(exc).__name__}: {exc}")
            continue
        g = got if isinstance(got, SBytes) else SBytes(got)
        ok = (g == pl) if len(g) == len(pl) else False
        ctx.prove(ok if isinstance(ok, bool) else ok.e, "earlier-chunk-unchanged")


def _sharded_positions(spec):
    """chunk positions of the 2x2x2 grid for the fault harness: two chunks stored earlier and two new ones that the
    sharding spec routes to *other* shard files (a writer replaces the shard files it touches as a whole, so only chunks
    in untouched shards are 'stored earlier' in the sense of the property)"""
    m, s_, p_ = spec[:3]

    def shard(i):
        return (i >> (p_ + m)) & ((1 << s_) - 1)

    def coords(i):
        x, y, z = i & 1, (i >> 1) & 1, (i >> 2) & 1
        return (x, x + 1, y, y + 1, z, z + 1)
    old = [0, 1]
    new = [i for i in range(2, 8) if shard(i) not in {shard(j) for j in old}][:2]
    if len(new) < 2:
        raise ValueError(f"sharding spec {spec} keeps everything in the shards of the earlier chunks")
    return [coords(i) for i in old], [coords(i) for i in new]


def H_fault_sharded(ctx, cfg):
    env = Env()
    sb, sfa = S.setup(env)
    strategy = cfg.get("strategy", "in memory")
    grid = (2, 2, 2)
    info = S.make_info(grid, 1, *cfg.get("spec", [1, 1, 0, "raw", "raw"]))
    errnos = ERRNOS + (MORE_ERRNOS if cfg.get("more_errnos") else [])
    (c_old0, c_old1), (c_new0, c_new1) = _sharded_positions(cfg.get("spec", [1, 1, 0]))
    acc = sfa.ShardedFileAccessor(S.BASE, strategy=strategy)
    acc.info = copy.deepcopy(info)
    p0, p1 = S.payload("a", 2), S.payload("b", 3)
    acc.store_chunk(p0, S.KEY, c_old0)
    acc.store_chunk(p1, S.KEY, c_old1)
    acc.close()
    env.run_atexit()
    new, new2 = S.payload("n", 2), S.payload("m", 1)
    ctx.input("payloads", [list(p0.bs), list(p1.bs), list(new.bs), list(new2.bs)])

    def write(w):
        # two chunks that go to other shard files than the earlier ones
        w.store_chunk(new, S.KEY, c_new0)
        w.store_chunk(new2, S.KEY, c_new1)
        w.close()
    w = sfa.ShardedFileAccessor(S.BASE, strategy=strategy)
    w.info = copy.deepcopy(info)
    snap = dict(env.fs.files)
    c0, l0 = env.fs.calls, len(env.fs.log)
    write(w)
    n_calls = env.fs.calls - c0
    kinds = [x[0] for x in env.fs.log[l0:l0 + n_calls]]
    env.fs.files = dict(snap)
    w = sfa.ShardedFileAccessor(S.BASE, strategy=strategy)
    w.info = copy.deepcopy(info)
    ni = SInt.var("call", "int")
    ctx.assume(z3.And(ni.e >= 0, ni.e < n_calls))
    ei = SInt.var("errno", "int")
    ctx.assume(z3.And(ei.e >= 0, ei.e < len(errnos)))
    n, e = ni.__index__(), errnos[ei.__index__()]
    ctx.input("fault", [n, errno.errorcode[e], kinds[n], kinds[:n].count(kinds[n])])
    ctx.input("kinds", kinds)
    if kinds[n] in ("is_file", "exists", "is_dir") and e in NO_SUCH_FILE:
        ctx.ok("probe-answered-no-such-file")         # ENOENT on a probe *is* the operating system's answer
        return
    env.fs.fail_at = (env.fs.calls + n, e)
    log0 = len(env.fs.log)
    DataAccessError = load.mod("accessor").DataAccessError
    try:
        write(w)
    except Exception as exc:
        env.fs.fail_at = None
        site = env.fs.log[log0 + n] if len(env.fs.log) > log0 + n else None
        if type(exc).__name__ in ("OutsideModel", "Inconclusive"):
            raise
        ctx.sample(dict(site=site, errno=errno.errorcode[e], raised=type(exc).__name__, strategy=strategy))
        if not _allowed_io_error(exc, DataAccessError):
            ctx.fail("io-failure-surfaced-as-unrelated-exception", detail=f"call {n} {site}: {type(exc).__name__}: {exc}")
            return
        ctx.ok("failure-reported-as-OSError")
    else:
        env.fs.fail_at = None
        site = env.fs.log[log0 + n] if len(env.fs.log) > log0 + n else None
        ctx.fail("store-and-close-returned-normally-although-a-call-failed", detail=f"call {n} {site} {errno.errorcode[e]}")
        return
    r = sfa.ShardedFileAccessor(S.BASE)
    r.info = copy.deepcopy(info)
    for cc, pl in ((c_old0, p0), (c_old1, p1)):
        try:
            got = r.fetch_chunk(S.KEY, cc)
        except Exception as exc:
            ctx.fail("earlier-chunk-no-longer-readable", detail=f"{cc}: {type(exc).__name__}: {exc}")
            continue
        g = got if isinstance(got, SBytes) else SBytes(got)
        ok = (g == pl) if len(g) == len(pl) else False
        ctx.prove(ok if isinstance(ok, bool) else ok.e, "earlier-chunk-unchanged")


def _decode_outcome(ctx, io, key, cc, want, old, label, errors):
    try:
        got = io.read_chunk(key, cc)
    except errors as exc:
        ctx.ok("reader-" + type(exc).__name__)
        return
    except Exception as exc:
        if type(exc).__name__ in ("OutsideModel", "Inconclusive"):
            raise
        ctx.fail("reader-raised-unrelated-exception-on-leftover-file", detail=f"{label}: {type(exc).__name__}: {exc}")
        return
    if not isinstance(got, SArray):
        got = SArray.from_concrete(got)          # decoded from concrete leftover bytes
    conds_new = z3.And([V.eq_elems(a, b) for a, b in zip(got.a.ravel(), want.a.ravel())]) if got.shape == want.shape else z3.BoolVal(False)
    if old is not None and got.shape == old.shape:
        conds_old = z3.And([V.eq_elems(a, b) for a, b in zip(got.a.ravel(), old.a.ravel())])
        ctx.prove(z3.Or(conds_new, conds_old), "decoded-chunk-is-the-new-or-the-old-array", detail=label)
    else:
        ctx.prove(conds_new, "decoded-chunk-is-the-written-array", detail=label)


def H_crash_file(ctx, cfg):
    W = V.World()
    env = W.env
    enc = cfg["enc"]
    dtype = "uint32" if enc == "compressed_segmentation" else "uint8"
    info = V.make_info(dtype, 1, (2, 2, 1), (2, 2, 1), enc, (2, 2, 1))
    url = "/mfs/ds"
    W.put_info(url, info)
    opts = dict(gzip=cfg["gzip"], flat=True)
    acc = W.accessor(url, opts)
    io = W.pio.get_IO_for_existing_dataset(acc)
    cc = (0, 2, 0, 2, 0, 1)
    old = None
    if cfg["over"]:
        old = SArray.fresh((1, 1, 2, 2), dtype, "old")
        io.write_chunk(old, "full", cc)
    new = SArray.fresh((1, 1, 2, 2), dtype, "new")
    ctx.input("voxels", [[x.e for x in (old.a.ravel() if old is not None else [])], [x.e for x in new.a.ravel()]])
    snap_f, snap_d = dict(env.fs.files), set(env.fs.dirs)
    c0 = env.fs.calls
    io.write_chunk(new, "full", cc)
    n_calls = env.fs.calls - c0
    env.fs.files, env.fs.dirs = dict(snap_f), set(snap_d)
    ni = SInt.var("call", "int")
    ctx.assume(z3.And(ni.e >= 0, ni.e <= n_calls))
    n = ni.__index__()
    case = [n, None]
    ctx.input("interruption", case)
    env.fs.crash_at = env.fs.calls + n
    log0 = len(env.fs.log)
    try:
        io.write_chunk(new, "full", cc)
    except Crash:
        st = env.fs.log[log0 + n]         # (the with-statement still closes the file while the interruption unwinds)
        case.append([st[0], sum(1 for x in env.fs.log[log0:log0 + n] if x[0] == st[0])])     # interrupted before this call
    env.fs.crash_at = None
    env.fs.crash_cleanup(ctx)
    case[1] = {p: (len(d) if not isinstance(d, GzBlob) else ("gz", len(d.payload), d.complete)) for p, d in env.fs.files.items() if "/full/" in p}
    ctx.sample(dict(enc=enc, gzip=cfg["gzip"], overwrite=cfg["over"], interrupted_before_call=n, files=case[1]))
    racc = W.accessor(url, opts)
    rio = W.pio.get_IO_for_existing_dataset(racc)
    DataAccessError = W.acc_mod.DataAccessError
    InvalidFormatError = load.mod("chunk_encoding").InvalidFormatError
    _decode_outcome(ctx, rio, "full", cc, new, old, f"interrupted before call {n}", (DataAccessError, InvalidFormatError, OSError))


def H_crash_sharded(ctx, cfg):
    env = Env()
    sb, sfa = S.setup(env)
    grid = (2, 2, 1)
    info = S.make_info(grid, 1, *cfg.get("spec", [1, 0, 0, "raw", "raw"]))
    strategy = cfg.get("strategy", "in memory")
    pls = {(0, 1, 0, 1, 0, 1): S.payload("a", 2), (1, 2, 0, 1, 0, 1): S.payload("b", 1), (1, 2, 1, 2, 0, 1): S.payload("c", 2)}
    ctx.input("payloads", [list(p.bs) for p in pls.values()])

    def writer():
        w = sfa.ShardedFileAccessor(S.BASE, strategy=strategy)
        w.info = copy.deepcopy(info)
        for c_, p in pls.items():
            w.store_chunk(p, S.KEY, c_)
        return w
    w = writer()
    c0, l0 = env.fs.calls, len(env.fs.log)
    w.close()
    n_calls = env.fs.calls - c0
    ctx.input("kinds", [x[0] for x in env.fs.log[l0:l0 + n_calls]])
    env.fs.files = {p: d for p, d in env.fs.files.items() if not p.startswith(f"{S.BASE}/{S.KEY}/")}
    w = writer()
    ni = SInt.var("call", "int")
    ctx.assume(z3.And(ni.e >= 0, ni.e <= n_calls))
    n = ni.__index__()
    case = [n, None]
    ctx.input("interruption", case)
    env.fs.crash_at = env.fs.calls + n
    try:
        w.close()
    except Crash:
        pass
    env.fs.crash_at = None
    env.fs.crash_cleanup(ctx)
    case[1] = {p: len(d) for p, d in S.shard_files(env.fs).items()}
    ctx.sample(dict(interrupted_before_call=n, files=case[1]))
    r = sfa.ShardedFileAccessor(S.BASE)
    r.info = copy.deepcopy(info)
    ShardedIOError = sb.ShardedIOError
    for c_, p in pls.items():
        try:
            got = r.fetch_chunk(S.KEY, c_)
        except (OSError, AssertionError, IndexError, ValueError) as exc:
            # absent or detectably invalid
            ctx.ok("reader-" + type(exc).__name__)
            continue
        except Exception as exc:
            if type(exc).__name__ in ("OutsideModel", "Inconclusive"):
                raise
            ctx.ok("reader-" + type(exc).__name__)
            continue
        g = got if isinstance(got, SBytes) else SBytes(got)
        if len(g) == 0:
            ctx.ok("reader-reports-no-data")
            continue
        ok = (g == p) if len(g) == len(p) else False
        ctx.prove(ok if isinstance(ok, bool) else ok.e, "bytes-read-from-an-interrupted-shard-are-the-stored-bytes",
                  detail=f"chunk {c_}, interrupted before call {n}, files {case[1]}")


# --------------------------------------------------------------------- replay

def replay(cfg, cex):
    import os
    import tempfile
    h = cfg["harness"]
    inp = cex["inputs"]
    if h in _HTTP.values():
        from . import c14
        return c14.replay(dict(cfg, harness={v: k for k, v in _HTTP.items()}[h]), cex)
    acc_mod = load.mod("accessor")
    fa = load.mod("file_accessor")
    if h == "fault_file":
        # inject the failure into the real accessor by patching the n-th file-system entry point it uses
        p0, p1, new = (bytes(x) for x in inp["payloads"])
        n, ename = inp["fault"][:2]
        e = getattr(errno, ename)
        with tempfile.TemporaryDirectory() as td:
            acc = fa.FileAccessor(os.path.join(td, "ds"), flat=cfg["flat"], gzip=cfg["gzip"])
            acc.store_chunk(p0, "k0", CH[0])
            acc.store_chunk(p1, "k0", CH[1])
            acc.store_file("info", b'{"x": 1}', mime_type="application/json")
            ops = {
                "store_chunk_new": lambda: acc.store_chunk(new, "k0", CH[2]),
                "store_chunk_over": lambda: acc.store_chunk(new, "k0", CH[1]),
                "store_file": lambda: acc.store_file("mesh/x", new, overwrite=True),
                "fetch_chunk": lambda: acc.fetch_chunk("k0", CH[0]),
                "fetch_file": lambda: acc.fetch_file("info"),
                "file_exists": lambda: acc.file_exists("info"),
            }
            import pathlib
            import unittest.mock as um
            opname, occ = inp["fault"][2], inp["fault"][3]
            if opname is None:
                return False, "no fault site recorded"
            counters = {}

            def hit(kind):
                i = counters.get(kind, 0)
                counters[kind] = i + 1
                return kind == opname and i == occ

            fired = []

            def boom():
                fired.append(1)
                raise OSError(e, os.strerror(e))

            class FileProxy:
                def __init__(self, f, prefix):
                    self._f, self._p = f, prefix
                    self._closed = False

                def __del__(self):
                    # a file object dropped without close(): closed by the garbage collector, errors swallowed, and
                    # whatever sat in its buffer is lost when that close fails
                    if not self._closed:
                        try:
                            self.close()
                        except OSError:
                            try:
                                os.truncate(self._f.name, 0)
                            except Exception:
                                pass

                def flush(self):
                    return self._f.flush()

                def tell(self):
                    return self._f.tell()

                def write(self, b):
                    if hit(self._p + "write"):
                        boom()
                    return self._f.write(b)

                def read(self, *a):
                    if hit(self._p + "read"):
                        boom()
                    return self._f.read(*a)

                def close(self):
                    self._closed = True
                    self._f.close()
                    if hit(self._p + "close"):
                        boom()

                def __enter__(self):
                    return self

                def __exit__(self, *a):
                    self.close()
                    return False
            real_open, real_gzopen, real_makedirs, real_isfile = pathlib.Path.open, fa.gzip.open, fa.os.makedirs, pathlib.Path.is_file

            def p_open(self_, mode="r", *a, **k):
                if hit("open:" + mode):
                    boom()
                return FileProxy(real_open(self_, mode, *a, **k), "")

            def g_open(path, mode="rb", *a, **k):
                if hit("gzopen:" + mode):
                    boom()
                return FileProxy(real_gzopen(path, mode, *a, **k), "gz")

            def p_makedirs(*a, **k):
                if hit("makedirs"):
                    boom()
                return real_makedirs(*a, **k)

            def p_isfile(self_):
                if hit("is_file"):
                    if e in (errno.ENOENT, errno.ENOTDIR, errno.EBADF, errno.ELOOP):
                        return False
                    boom()
                return real_isfile(self_)
            real_osisfile = os.path.isfile

            def p_osisfile(path):
                if hit("is_file"):
                    return False          # os.path.isfile answers False on any OSError from stat()
                return real_osisfile(path)
            patches = [um.patch.object(fa.os, "makedirs", p_makedirs), um.patch.object(pathlib.Path, "open", p_open),
                       um.patch.object(fa.gzip, "open", g_open), um.patch.object(pathlib.Path, "is_file", p_isfile),
                       um.patch.object(os.path, "isfile", p_osisfile)]
            for p_ in patches:
                p_.start()
            try:
                try:
                    r = ops[cfg["op"]]()
                    import gc
                    gc.collect()
                except (acc_mod.DataAccessError, OSError):
                    r = "raised"
                except Exception as exc:
                    return True, f"{cfg['op']}: {ename} injected at {opname}#{occ} surfaced as {type(exc).__name__}: {exc}"
            finally:
                for p_ in patches:
                    p_.stop()
            if counters.get(opname, 0) <= occ:
                return False, "fault site not reached in the concrete run"
            if r != "raised" and cfg["op"].startswith("store"):
                return True, f"{cfg['op']} returned normally although {opname}#{occ} failed with {ename}"
            if r != "raised" and cfg["op"] == "fetch_chunk" and r != p0:
                return True, f"fetch_chunk returned {r!r} after a failed {opname}"
            if r != "raised" and cfg["op"] == "file_exists" and r is not True and e not in NO_SUCH_FILE:
                return True, f"file_exists returned {r!r} although the probe failed with {ename} (the file exists)"
            reader = fa.FileAccessor(os.path.join(td, "ds"), flat=cfg["flat"], gzip=cfg["gzip"])
            for cc_, pl in ((CH[0], p0), (CH[1], p1)):
                if cc_ == CH[1] and cfg["op"] == "store_chunk_over" and not (
                        opname == "makedirs" or opname.startswith(("open:", "gzopen:"))):
                    continue
                try:
                    if reader.fetch_chunk("k0", cc_) != pl:
                        return True, f"chunk {cc_} stored earlier changed after the failed {cfg['op']}"
                except Exception as exc:
                    return True, f"chunk {cc_} stored earlier is no longer readable after the failed {cfg['op']}: {type(exc).__name__}"
            return False, "failure reported, earlier data intact"
    if h == "crash_file":
        enc = cfg["enc"]
        dtype = "uint32" if enc == "compressed_segmentation" else "uint8"
        pio = load.mod("precomputed_io")
        info = V.make_info(dtype, 1, (2, 2, 1), (2, 2, 1), enc, (2, 2, 1))
        oldv, newv = inp["voxels"]
        n, files = inp["interruption"][:2]
        with tempfile.TemporaryDirectory() as td:
            acc = acc_mod.get_accessor_for_url(td, dict(gzip=cfg["gzip"], flat=True))
            io = pio.get_IO_for_new_dataset(info, acc)
            cc = (0, 2, 0, 2, 0, 1)
            new = real_np.array(newv, dtype=dtype).reshape(1, 1, 2, 2)
            old = real_np.array(oldv, dtype=dtype).reshape(1, 1, 2, 2) if oldv else None
            if old is not None:
                io.write_chunk(old, "full", cc)
            site = inp["interruption"][2] if len(inp["interruption"]) > 2 else None

            class Kill(BaseException):
                pass
            import pathlib
            import unittest.mock as um
            counters = {}

            def hit(kind):
                i = counters.get(kind, 0)
                counters[kind] = i + 1
                return site is not None and kind == site[0] and i == site[1]

            class FP:
                def __init__(self, f, prefix):
                    self._f, self._p = f, prefix

                def write(self, b):
                    if hit(self._p + "write"):
                        raise Kill()
                    return self._f.write(b)

                def fileno(self):
                    return self._f.fileno()

                def close(self):
                    if hit(self._p + "close"):
                        raise Kill()
                    self._f.close()

                def __enter__(self):
                    return self

                def __exit__(self, *a):
                    if a[0] is None:
                        self.close()
                    return False
            real_open, real_gzopen, real_makedirs = pathlib.Path.open, fa.gzip.open, fa.os.makedirs

            def p_open(self_, mode="r", *a, **k):
                if hit("open:" + mode):
                    raise Kill()
                return FP(real_open(self_, mode, buffering=0) if "b" in mode else real_open(self_, mode), "")

            def g_open(path, mode="rb", *a, **k):
                if hit("gzopen:" + mode):
                    raise Kill()
                return FP(real_gzopen(path, mode, *a, **k), "gz")

            def p_makedirs(*a, **k):
                if hit("makedirs"):
                    raise Kill()
                return real_makedirs(*a, **k)
            real_falloc = getattr(os, "posix_fallocate", None)

            def p_falloc(*a):
                if hit("fallocate"):
                    raise Kill()
                return real_falloc(*a)
            patches = [um.patch.object(fa.os, "makedirs", p_makedirs), um.patch.object(pathlib.Path, "open", p_open),
                       um.patch.object(fa.gzip, "open", g_open)]
            if real_falloc:
                patches.append(um.patch.object(os, "posix_fallocate", p_falloc))
            for p_ in patches:
                p_.start()
            try:
                try:
                    io.write_chunk(new, "full", cc)
                except Kill:
                    pass
            finally:
                for p_ in patches:
                    p_.stop()
            # the model lets any prefix of what was written survive: cut the real files down to that prefix
            for p, ln in (files or {}).items():
                name = os.path.join(td, "full", os.path.basename(p))
                if not os.path.exists(name) or isinstance(ln, list):
                    continue
                data = open(name, "rb").read()
                if len(data) > ln:
                    open(name, "wb").write(data[:ln])
            r = pio.get_IO_for_existing_dataset(acc_mod.get_accessor_for_url(td, dict(gzip=cfg["gzip"], flat=True)))
            try:
                got = r.read_chunk("full", cc)
            except (acc_mod.DataAccessError, load.mod("chunk_encoding").InvalidFormatError, OSError):
                return False, "detectably invalid"
            except Exception as exc:
                return True, f"reading the leftover of an interrupted write raised {type(exc).__name__}: {exc}"
            if real_np.array_equal(got, new) or (old is not None and real_np.array_equal(got, old)):
                return False, "complete chunk"
            return True, f"leftover partial file decoded to {got.ravel().tolist()} (written {new.ravel().tolist()})"
    if h == "fault_sharded":
        return _replay_fault_sharded(cfg, inp)
    if h == "crash_sharded":
        return _replay_crash_sharded(cfg, inp)
    return True, "model-level counterexample (fault plan on the model file system); see inputs"


class _Interposer:
    """Wraps the file-system entry points the sharded writer uses (open and the file methods, Path.is_file / mkdir,
    TemporaryDirectory) so that every call is logged by kind and one chosen call (kind, occurrence) runs `action`."""
    def __init__(self, sfa, base, action, probe_enoent_ok=True):
        self.sfa, self.base, self.action, self.probe_enoent_ok = sfa, base, action, probe_enoent_ok
        self.seq, self.counters, self.target = [], {}, None

    def reset(self, target=None):
        self.seq, self.counters, self.target = [], {}, target

    def hit(self, k):
        self.seq.append(k)
        i = self.counters.get(k, 0)
        self.counters[k] = i + 1
        if self.target is not None and (k, i) == tuple(self.target):
            self.action(k)

    def __enter__(self):
        import os
        import pathlib
        import tempfile
        import unittest.mock as um
        ip, sfa = self, self.sfa

        class FileProxy:
            def __init__(self, f):
                self._f = f

            def write(self, b):
                try:
                    ip.hit("write")
                except OSError as exc:
                    import io
                    # a raw file object: the kernel stores what fits and returns the short count
                    if isinstance(self._f, io.RawIOBase) and exc.errno in (errno.ENOSPC, errno.EDQUOT, errno.EFBIG) and len(b) > 1:
                        return self._f.write(bytes(b)[:len(b) // 2])
                    raise
                return self._f.write(b)

            def read(self, *a):
                ip.hit("read")
                return self._f.read(*a)

            def seek(self, *a):
                ip.hit("seek")
                return self._f.seek(*a)

            def tell(self):
                return self._f.tell()

            def close(self):
                self._f.close()
                ip.hit("close")

            def __enter__(self):
                return self

            def __exit__(self, *a):
                if a and a[0] is not None and not issubclass(a[0], Exception):
                    self._f.close()          # interrupted process: the descriptor just goes away
                    return False
                self.close()
                return False
        real_open, real_isfile, real_mkdir, real_td = open, pathlib.Path.is_file, pathlib.Path.mkdir, sfa.TemporaryDirectory

        def p_open(path, mode="r", *a, **k):
            ip.hit("open:" + mode)
            return FileProxy(real_open(path, mode, *a, **k))

        def p_isfile(self_):
            try:
                ip.hit("is_file")
            except OSError as exc:
                if exc.errno in (errno.ENOENT, errno.ENOTDIR, errno.EBADF, errno.ELOOP):
                    return False
                raise
            return real_isfile(self_)

        def p_mkdir(self_, *a, **k):
            if not str(self_).startswith(tempfile.gettempdir() + os.sep + "tmp") or str(self_).startswith(ip.base):
                ip.hit("mkdir")
            return real_mkdir(self_, *a, **k)

        def p_td(*a, **k):
            ip.hit("mkdir")
            return real_td(*a, **k)
        self._had_open = "open" in sfa.__dict__
        sfa.open = p_open
        self._patches = [um.patch.object(pathlib.Path, "is_file", p_isfile), um.patch.object(pathlib.Path, "mkdir", p_mkdir),
                         um.patch.object(sfa, "TemporaryDirectory", p_td)]
        for p_ in self._patches:
            p_.start()
        return self

    def __exit__(self, *a):
        for p_ in self._patches:
            p_.stop()
        if not self._had_open:
            del self.sfa.open
        return False


def _replay_fault_sharded(cfg, inp):
    """The same store/close sequence on the real sharded accessor in a temporary directory; the file-system entry points
    it uses are wrapped so that the call the model chose (same kind, same occurrence) fails with the chosen errno.  The
    sequence of call kinds of a fault-free real run must equal the model's, otherwise the replay is not comparable."""
    import os
    import tempfile
    sfa = load.mod("sharded_file_accessor")
    acc_mod = load.mod("accessor")
    p0, p1, new, new2 = (bytes(x) for x in inp["payloads"])
    n, ename, kind, occ = inp["fault"]
    e = getattr(errno, ename)
    strategy = cfg.get("strategy", "in memory")
    info = S.make_info((2, 2, 2), 1, *cfg.get("spec", [1, 1, 0, "raw", "raw"]))

    def boom(k):
        raise OSError(e, os.strerror(e))
    (c_old0, c_old1), (c_new0, c_new1) = _sharded_positions(cfg.get("spec", [1, 1, 0]))
    with tempfile.TemporaryDirectory() as top:
        results = {}
        for armed in (False, True):
            td = os.path.join(top, "armed" if armed else "dry")
            acc = sfa.ShardedFileAccessor(td, strategy=strategy)
            acc.info = copy.deepcopy(info)
            acc.store_chunk(p0, S.KEY, c_old0)
            acc.store_chunk(p1, S.KEY, c_old1)
            acc.close()
            with _Interposer(sfa, top, boom) as ip:
                try:
                    w = sfa.ShardedFileAccessor(td, strategy=strategy)
                    w.info = copy.deepcopy(info)
                    ip.reset((kind, occ) if armed else None)         # the model counts from the first store_chunk on
                    w.store_chunk(new, S.KEY, c_new0)
                    w.store_chunk(new2, S.KEY, c_new1)
                    w.close()
                    results[armed] = None
                except Exception as exc:
                    results[armed] = exc
                    import atexit
                    atexit.unregister(w.close)
                seq = list(ip.seq)
            if not armed:
                if results[False] is not None:
                    return False, f"fault-free real run failed: {results[False]!r}"
                if seq != list(inp["kinds"]):
                    return False, f"real call sequence {seq} differs from the model's {inp['kinds']}: not comparable"
        exc = results[True]
        if exc is None:
            return True, f"{strategy}: store/close returned normally although {kind} #{occ} hit {ename} (space exhausted in the middle of the request for a raw file)"
        if not isinstance(exc, (OSError, acc_mod.DataAccessError)):
            return True, f"{strategy}: {kind} #{occ} failing with {ename} surfaced as {type(exc).__name__}: {exc}"
        r = sfa.ShardedFileAccessor(os.path.join(top, "armed"))
        r.info = copy.deepcopy(info)
        for cc, pl in ((c_old0, p0), (c_old1, p1)):
            try:
                got = r.fetch_chunk(S.KEY, cc)
            except Exception as exc2:
                return True, f"earlier chunk {cc} no longer readable after the failed write: {type(exc2).__name__}: {exc2}"
            if bytes(got) != pl:
                return True, f"earlier chunk {cc} changed after the failed write"
    return False, "failure reported and earlier chunks intact on the real code"


class _Kill(BaseException):
    pass


def _replay_crash_sharded(cfg, inp):
    """Interrupt the real close() at the call the model chose (same kind and occurrence), cut every shard file down to
    the prefix the model let survive, and read all chunks back with the real reader."""
    import os
    import tempfile
    sfa = load.mod("sharded_file_accessor")
    pls = [bytes(x) for x in inp["payloads"]]
    coords = [(0, 1, 0, 1, 0, 1), (1, 2, 0, 1, 0, 1), (1, 2, 1, 2, 0, 1)]
    n, files = inp["interruption"][:2]
    kinds = list(inp["kinds"])
    target = (kinds[n], kinds[:n].count(kinds[n])) if n < len(kinds) else None
    info = S.make_info((2, 2, 1), 1, *cfg.get("spec", [1, 0, 0, "raw", "raw"]))
    strategy = cfg.get("strategy", "in memory")

    def kill(k):
        raise _Kill()
    with tempfile.TemporaryDirectory() as top:
        for armed in (False, True):
            td = os.path.join(top, "armed" if armed else "dry")
            with _Interposer(sfa, top, kill) as ip:
                w = sfa.ShardedFileAccessor(td, strategy=strategy)
                w.info = copy.deepcopy(info)
                for c_, p in zip(coords, pls):
                    w.store_chunk(p, S.KEY, c_)
                ip.reset(target if armed else None)
                try:
                    w.close()
                except _Kill:
                    pass
                import atexit
                atexit.unregister(w.close)        # the interrupted process never reaches its exit handlers
                seq = list(ip.seq)
            if not armed and seq != kinds:
                return False, f"real call sequence {seq} differs from the model's {kinds}: not comparable"
        td = os.path.join(top, "armed")
        # the model lets any prefix of what had been written survive: cut the real files down to that prefix
        sdir = os.path.join(td, S.KEY)
        present = {os.path.basename(p): ln for p, ln in (files or {}).items()}
        for name in (os.listdir(sdir) if os.path.isdir(sdir) else []):
            full = os.path.join(sdir, name)
            if name not in present:
                os.remove(full)
                continue
            data = open(full, "rb").read()
            if len(data) < present[name]:
                return False, f"{name}: the real run wrote {len(data)} bytes before the interruption, the model {present[name]}: not comparable"
            open(full, "wb").write(data[:present[name]])
        r = sfa.ShardedFileAccessor(td)
        r.info = copy.deepcopy(info)
        for c_, p in zip(coords, pls):
            try:
                got = r.fetch_chunk(S.KEY, c_)
            except Exception:
                continue                      # absent or detectably invalid
            if len(got) and bytes(got) != p:
                return True, (f"interrupted before call {n} ({target}), files {present}: chunk {c_} reads back as {bytes(got)!r}, "
                              f"stored {p!r}")
    return False, "an interrupted close never yields wrong chunk bytes on the real code"
