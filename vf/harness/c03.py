"""C03 - write-then-read identity for lossless encodings; off-grid positions rejected."""
import builtins
import itertools

import numpy as real_np
import z3

from .. import load
from ..findings import regions_for
from ..sarray import NPProxy, SArray, elem_eq
from ..sbytes import SByteArray, SBytes, StructProxy
from ..values import SInt, smin

PROPERTY = "C03"
MODULES = ["precomputed_io", "chunk_encoding", "_compressed_segmentation", "accessor", "_jpeg"]
FUNCTIONS = ["precomputed_io.PrecomputedIO.__init__/validate_chunk_coords/read_chunk/write_chunk",
             "chunk_encoding.get_encoder", "chunk_encoding.RawChunkEncoder.encode/decode",
             "chunk_encoding.CompressedSegmentationEncoder.encode/decode", "_compressed_segmentation.*",
             "chunk_encoding.JpegChunkEncoder.encode/decode", "_jpeg.encode_chunk/decode_chunk"]
STUBS = ["np/struct/bytearray stand-ins as in C02", "min -> fork-free if-then-else minimum (validate_chunk_coords)",
         "accessor = in-memory dictionary accessor; harness 'accessors': the real file and sharded accessors on the model file system"]
ASSUMPTIONS = ["voxel_offset == [0,0,0] (the only value the code accepts)"]
EXPLANATION = ("validate_chunk_coords is run on symbolic volume sizes and six symbolic coordinates and compared with the "
               "grid predicate; chunks with symbolic voxels are written and read back through PrecomputedIO (same and "
               "fresh handle) and the solver proves shape, dtype and every value identical; write histories of k "
               "symbolic slot choices check last-write-wins.")
BOUNDS = {
    "quick": "grid validation: sizes symbolic 1..10^9 per axis, coordinates symbolic in [-2^40, 2^40], chunk sizes from "
             "{1,2,3,64} incl. two alternative chunk sizes; identity: raw uint8/16/32/64/float32 and compressed_segmentation "
             "uint32/uint64, 1-3 channels, all chunks (interior and border) of volumes up to 3x3x2 with <= 12 voxels per chunk; "
             "histories: k<=3 writes over 4 slots of a two-scale info",
    "thorough": "more shapes/chunk sizes (up to 27 voxels per chunk), k<=4 histories",
}
OUTSIDE = ["the accuracy of the JPEG codec itself (libjpeg through Pillow is compiled code): harness 'jpeg' replaces it by a lossy "
           "stand-in that keeps the image geometry and returns every sample within 6 grey levels", "voxel_offset other than zero",
           "HTTP accessors (read-only: C14)"]


def _info(dtype, C, size, cs_list, encoding, block=None, key="k0"):
    sc = dict(key=key, size=list(size), chunk_sizes=[list(c) for c in cs_list], encoding=encoding,
              resolution=[1, 1, 1], voxel_offset=[0, 0, 0])
    if encoding == "compressed_segmentation":
        sc["compressed_segmentation_block_size"] = list(block or (2, 2, 2))
    return dict(type="image", data_type=dtype, num_channels=C, scales=[sc])


def configs(tier, seed):
    out = []
    for cs_list in ([[2, 2, 2]], [[3, 2, 1]], [[64, 64, 64]], [[1, 1, 1]], [[2, 2, 2], [3, 3, 3]], [[64, 64, 64], [2, 3, 1]]):
        out.append(dict(harness="grid", cs_list=cs_list, cost=2))
        out.append(dict(harness="reject", cs_list=cs_list, cost=2))
    ident = [
        ("uint8", 1, (3, 2, 1), (2, 2, 2), "raw", None), ("uint16", 2, (3, 2, 2), (2, 1, 2), "raw", None),
        ("uint32", 3, (2, 1, 1), (1, 1, 1), "raw", None), ("uint64", 1, (3, 3, 2), (2, 2, 2), "raw", None),
        ("float32", 2, (2, 3, 1), (2, 2, 1), "raw", None), ("uint8", 3, (1, 1, 5), (4, 4, 4), "raw", None),
        ("uint32", 1, (3, 2, 1), (2, 2, 2), "compressed_segmentation", (2, 2, 2)),
        ("uint64", 1, (2, 2, 2), (2, 2, 1), "compressed_segmentation", (2, 1, 1)),
        ("uint64", 2, (2, 1, 1), (2, 2, 2), "compressed_segmentation", (1, 1, 1)),
        ("uint32", 1, (1, 3, 2), (1, 2, 2), "compressed_segmentation", (1, 2, 2)),
    ]
    if tier == "thorough":
        ident += [("uint16", 1, (4, 3, 3), (3, 3, 3), "raw", None), ("float32", 3, (3, 3, 3), (2, 2, 2), "raw", None),
                  ("uint64", 1, (3, 3, 1), (2, 2, 1), "compressed_segmentation", (2, 2, 1)),
                  ("uint32", 2, (2, 2, 2), (2, 2, 2), "compressed_segmentation", (2, 2, 2)),
                  ("uint64", 1, (4, 2, 1), (4, 2, 1), "compressed_segmentation", (2, 2, 1))]
    for dtype, C, size, cs, enc, block in ident:
        out.append(dict(harness="identity", dtype=dtype, C=C, size=list(size), cs=list(cs), encoding=enc, block=block,
                        cost=4 if enc != "raw" else 1, wall=900))
    # chunks handed over as big-endian arrays of the dataset's type (what nibabel yields for big-endian files)
    for dtype, enc, block in (("uint16", "raw", None), ("uint64", "raw", None), ("float32", "raw", None),
                              ("uint32", "compressed_segmentation", (2, 2, 1))):
        out.append(dict(harness="identity", dtype=dtype, C=1, size=[2, 2, 1], cs=[2, 2, 1], encoding=enc, block=block,
                        big_endian=True, cost=2, wall=900))
    # chunks handed over in Fortran memory order (what axis-permuting callers such as the slice converter produce)
    for dtype, enc, block in (("uint16", "raw", None), ("uint32", "compressed_segmentation", (2, 2, 1)), ("float32", "raw", None)):
        out.append(dict(harness="identity", dtype=dtype, C=2 if enc == "raw" else 1, size=[3, 2, 2], cs=[2, 2, 2], encoding=enc, block=block,
                        order="F", cost=3, wall=900))
    for dt_chunk, dt_data in (("uint16", "uint8"), ("int64", "uint64"), ("float32", "uint32"), ("uint64", "uint32"), ("float64", "float32")):
        out.append(dict(harness="unsafe", dt_chunk=dt_chunk, dt_data=dt_data, cost=1))
    for k in ((1, 2, 3) if tier == "quick" else (1, 2, 3, 4)):
        out.append(dict(harness="history", k=k, dtype="uint16", cost=k))
    acc_cases = [
        dict(dtype="uint16", C=1, size=[3, 2, 2], cs=[2, 2, 2], encoding="raw", wopts=dict(flat=True, gzip=False), ropts=dict(flat=False, gzip=True)),
        dict(dtype="uint8", C=2, size=[2, 3, 1], cs=[2, 2, 1], encoding="raw", wopts=dict(flat=False, gzip=True), ropts=dict(flat=True, gzip=False)),
        dict(dtype="uint32", C=1, size=[2, 2, 2], cs=[2, 2, 1], encoding="compressed_segmentation", block=[2, 2, 1], wopts=dict(flat=False, gzip=True)),
        dict(dtype="uint8", C=1, size=[4, 2, 2], cs=[2, 2, 2], encoding="raw", sharding=[1, 1, 0, "raw", "gzip"], order=[1, 0]),
        dict(dtype="uint16", C=1, size=[4, 4, 2], cs=[2, 2, 2], encoding="raw", sharding=[2, 0, 0, "gzip", "raw"], order=[3, 0, 2, 1]),
        dict(dtype="uint64", C=1, size=[3, 1, 2], cs=[1, 1, 1], encoding="compressed_segmentation", block=[1, 1, 1], sharding=[0, 1, 1, "gzip", "gzip"]),
        dict(dtype="float32", C=2, size=[6, 2, 2], cs=[2, 2, 2], encoding="raw", sharding=[1, 0, 0, "raw", "raw"], order=[2, 1, 0]),
    ]
    for a in acc_cases:
        out.append(dict(harness="accessors", cost=3, wall=900, **a))
    for C, size, cs, plane in ((1, (3, 2, 2), (2, 2, 2), "xy"), (1, (2, 3, 2), (2, 2, 2), "xz"), (3, (2, 2, 3), (2, 2, 2), "xy"),
                               (3, (3, 2, 2), (2, 1, 2), "xz")) + (((1, (4, 3, 3), (3, 3, 3), "xz"), (3, (3, 3, 3), (2, 3, 2), "xy"))
                                                                   if tier == "thorough" else ()):
        out.append(dict(harness="jpeg", C=C, size=list(size), cs=list(cs), plane=plane, cost=2))
    return out


class DictAccessor:
    can_read = True
    can_write = True

    def __init__(self):
        self.chunks = {}
        self.files = {}
        self.calls = 0

    def store_chunk(self, buf, key, chunk_coords, mime_type="application/octet-stream", overwrite=True):
        self.calls += 1
        self.chunks[(key, tuple(chunk_coords))] = SBytes(buf) if isinstance(buf, (SBytes, bytes, bytearray)) else buf

    def fetch_chunk(self, key, chunk_coords):
        self.calls += 1
        return self.chunks[(key, tuple(chunk_coords))]

    def store_file(self, relative_path, buf, mime_type="application/octet-stream", overwrite=False):
        self.files[relative_path] = buf

    def fetch_file(self, relative_path):
        return self.files[relative_path]


def _patched(with_min=False):
    npx = NPProxy()
    ce = load.patch("chunk_encoding", np=npx)
    load.patch("_compressed_segmentation", np=npx, struct=StructProxy(), bytearray=SByteArray)
    pio = load.patch("precomputed_io", **({"min": smin} if with_min else {}))
    return pio, ce


def _grid_valid(coords, size, cs_list):
    """Spec: the box is a cell of the chunk grid for one of the listed chunk sizes."""
    alts = []
    for cs in cs_list:
        per = []
        for d in range(3):
            lo, hi = coords[2 * d].e, coords[2 * d + 1].e
            per.append(z3.And(lo >= 0, lo < size[d].e, lo % cs[d] == 0,
                              hi == z3.If(lo + cs[d] < size[d].e, lo + cs[d], size[d].e)))
        alts.append(z3.And(per))
    return z3.Or(alts)


def _sym_grid_inputs(ctx, cfg):
    size = [SInt.var(f"s{d}", "int") for d in range(3)]
    for s in size:
        ctx.assume(z3.And(s.e >= 1, s.e <= 10 ** 9))
    coords = [SInt.var(n, "int") for n in ("xmin", "xmax", "ymin", "ymax", "zmin", "zmax")]
    for c in coords:
        ctx.assume(z3.And(c.e >= -(1 << 40), c.e <= (1 << 40)))
    ctx.input("size", [s.e for s in size])
    ctx.input("coords", [c.e for c in coords])
    return size, coords


def H_grid(ctx, cfg):
    pio, ce = _patched(with_min=True)
    size, coords = _sym_grid_inputs(ctx, cfg)
    for fid, expr in regions_for(PROPERTY, "grid"):
        ctx.region(fid, eval(expr, {"z3": z3, "size": [s.e for s in size], "c": [c.e for c in coords]}))
    info = _info("uint8", 1, size, cfg["cs_list"], "raw")
    io = pio.PrecomputedIO(info, DictAccessor())
    res = io.validate_chunk_coords("k0", tuple(coords))
    want = _grid_valid(coords, size, cfg["cs_list"])
    ctx.sample(dict(chunk_sizes=cfg["cs_list"], result=bool(res)))
    if res:
        ctx.prove(want, "accepted-only-if-grid-cell")
    else:
        ctx.prove(z3.Not(want), "rejected-only-if-not-grid-cell")


def H_reject(ctx, cfg):
    """write_chunk / read_chunk must raise AssertionError and leave the accessor untouched off the grid."""
    pio, ce = _patched(with_min=True)
    size, coords = _sym_grid_inputs(ctx, cfg)
    for fid, expr in regions_for(PROPERTY, "reject"):
        ctx.region(fid, eval(expr, {"z3": z3, "size": [s.e for s in size], "c": [c.e for c in coords]}))
    want = _grid_valid(coords, size, cfg["cs_list"])
    ctx.assume(z3.Not(want))
    info = _info("uint8", 1, size, cfg["cs_list"], "raw")
    acc = DictAccessor()
    io = pio.PrecomputedIO(info, acc)
    chunk = SArray.fresh((1, 1, 1, 1), "uint8", "v")
    for name, call in (("write", lambda: io.write_chunk(chunk, "k0", tuple(coords))),
                       ("read", lambda: io.read_chunk("k0", tuple(coords)))):
        try:
            call()
        except AssertionError:
            ctx.prove(acc.calls == 0, f"{name}-rejected-without-touching-storage")
            continue
        except KeyError:
            pass
        ctx.fail(f"off-grid-{name}-not-rejected")


def _chunks_of(size, cs):
    out = []
    for x0 in range(0, size[0], cs[0]):
        for y0 in range(0, size[1], cs[1]):
            for z0 in range(0, size[2], cs[2]):
                out.append((x0, builtins.min(x0 + cs[0], size[0]), y0, builtins.min(y0 + cs[1], size[1]),
                            z0, builtins.min(z0 + cs[2], size[2])))
    return out


def _same(ctx, got, want, label):
    ok = getattr(got, "shape", None) == want.shape and real_np.dtype(got.dtype) == real_np.dtype(want.dtype)
    ctx.prove(ok, label + "-shape-dtype", detail=f"{getattr(got, 'shape', None)} {getattr(got, 'dtype', None)} vs {want.shape} {want.dtype}")
    if not ok:
        return
    conds = []
    for a, b in zip(got.a.ravel(), want.a.ravel()):
        c = elem_eq(a, b)
        if c is None:
            c = False
        conds.append(z3.BoolVal(c) if isinstance(c, bool) else c)
    ctx.prove(z3.And(conds) if conds else True, label + "-values")


def H_identity(ctx, cfg):
    pio, ce = _patched()
    dtype, C, size, cs = cfg["dtype"], cfg["C"], cfg["size"], cfg["cs"]
    info = _info(dtype, C, size, [cs], cfg["encoding"], cfg["block"])
    acc = DictAccessor()
    io = pio.PrecomputedIO(info, acc)
    written = {}
    allin = []
    for i, cc in enumerate(_chunks_of(size, cs)):
        shape = (C, cc[5] - cc[4], cc[3] - cc[2], cc[1] - cc[0])
        chunk = SArray.fresh(shape, dtype, f"c{i}")
        allin += [x.__zexpr__() for x in chunk.a.ravel()]
        written[cc] = chunk
    ctx.input("voxels", allin)      # registered before the first write: a write that raises must still be replayable
    for cc, chunk in written.items():
        if cfg.get("big_endian"):
            arg = SArray(chunk.a, real_np.dtype(dtype).newbyteorder(">"))       # same values, big-endian memory layout
        elif cfg.get("order") == "F":
            arg = SArray(real_np.asfortranarray(chunk.a), dtype)                # same values, Fortran-ordered memory (e.g. a transposed view)
        else:
            arg = chunk
        io.write_chunk(arg, "k0", cc)
    ctx.sample(dict(chunks=len(written), voxels=len(allin), encoding=cfg["encoding"]))
    io2 = pio.PrecomputedIO(info, acc)
    for cc, chunk in written.items():
        _same(ctx, io.read_chunk("k0", cc), chunk, "same-handle")
        _same(ctx, io2.read_chunk("k0", cc), chunk, "fresh-handle")


def H_accessors(ctx, cfg):
    """The same identity through the real accessors on the model file system: file accessor (flat/deep, gzip on/off,
    read back under another configuration) and sharded accessor (any sharding spec incl. different index/data encodings);
    chunks are written in the configured order, the accessor is closed, a fresh accessor reads everything back."""
    from . import _vol as V
    W = V.World()
    dtype, C, size, cs = cfg["dtype"], cfg["C"], cfg["size"], cfg["cs"]
    sh = cfg.get("sharding")
    info = V.make_info(dtype, C, size, cs, cfg["encoding"], cfg.get("block"), sh)
    url = "/mfs/ds"
    W.put_info(url, info)
    wopts = dict(cfg.get("wopts") or {})
    ropts = dict(cfg.get("ropts") or wopts)
    acc = W.accessor(url, wopts)
    io = W.pio.get_IO_for_existing_dataset(acc)
    chunks = _chunks_of(size, cs)
    order = [chunks[i] for i in cfg.get("order") or range(len(chunks))]
    written, allin = {}, []
    for i, cc in enumerate(order):
        shape = (C, cc[5] - cc[4], cc[3] - cc[2], cc[1] - cc[0])
        chunk = SArray.fresh(shape, dtype, f"c{i}")
        allin += [x.__zexpr__() for x in chunk.a.ravel()]
        written[cc] = chunk
        io.write_chunk(chunk, "full", cc)
    ctx.input("voxels", allin)
    W.finish()                                   # end of the writing process (sharded accessors flush at exit)
    ctx.sample(dict(chunks=len(written), files=sorted(W.env.fs.files)[:8]))
    io2 = W.pio.get_IO_for_existing_dataset(W.accessor(url, ropts))
    for cc, chunk in written.items():
        try:
            got = io2.read_chunk("full", cc)
        except Exception as e:
            if type(e).__name__ in ("OutsideModel", "Inconclusive", "PathAbort"):
                raise
            ctx.fail("fresh-handle-reads-the-chunk", detail=f"chunk {cc}: {type(e).__name__}: {e}", exc=e)
            continue
        if not isinstance(got, SArray):
            got = SArray.from_concrete(got)
        _same(ctx, got, chunk, "fresh-accessor")


class _LossyCodec:
    """Stand-in for Pillow in _jpeg.py: fromarray/save/open keep the image geometry and return every sample within
    EPS of what was saved (the codec's accuracy itself is compiled code); files are registered byte tokens."""
    EPS = 6

    def __init__(self, ctx):
        import types
        self.ctx, self.saved = ctx, {}
        self.Image = types.SimpleNamespace(fromarray=self.fromarray, open=self.open)

    def fromarray(self, arr, mode=None):
        codec = self
        if not isinstance(arr, SArray) or arr.dtype != real_np.uint8 or arr.ndim not in (2, 3) or (arr.ndim == 3 and arr.shape[2] != 3):
            raise TypeError(f"Cannot handle this data type: {getattr(arr, 'shape', None)}, {getattr(arr, 'dtype', None)}")

        class Img:
            mode = "L" if arr.ndim == 2 else "RGB"
            size = (arr.shape[1], arr.shape[0])
            pixels = arr

            def save(self, fp, format=None, **params):
                assert format == "jpeg"
                assert 0 <= params.get("quality", 75) <= 100 and params.get("subsampling", 0) in (0, 1, 2)
                tok = b"\xff\xd8JPEGTOKEN%04d\xff\xd9" % len(codec.saved)
                codec.saved[tok] = self
                fp.write(tok)
        return Img()

    def open(self, fp):
        tok = fp.read()
        src = self.saved.get(bytes(tok))
        if src is None:
            raise OSError("cannot identify image file")
        ctx = self.ctx
        flat = src.pixels.a.ravel()
        out = real_np.empty(len(flat), dtype=object)
        from ..values import SBV
        for i, p in enumerate(flat):
            q = SBV.var(ctx.fresh_name("dec"), "uint8")
            d = z3.BV2Int(q.e) - z3.BV2Int(p.e)
            ctx.assume(z3.And(d <= self.EPS, d >= -self.EPS))
            out[i] = q
        dec = SArray(out.reshape(src.pixels.shape), real_np.uint8)

        class Img:
            mode, size = src.mode, src.size

            def __sarray__(self):
                return dec
        return Img()


def H_jpeg(ctx, cfg):
    """JPEG round trip through PrecomputedIO with the codec replaced by a lossy stand-in: same shape and type, and every
    voxel within the codec's error of the voxel written at that position (the Python-side reshaping is what is decided)."""
    C, size, cs = cfg["C"], cfg["size"], cfg["cs"]
    npx = NPProxy()
    ce = load.patch("chunk_encoding", np=npx)
    codec = _LossyCodec(ctx)
    load.patch("_jpeg", np=npx, PIL=codec)
    pio = load.patch("precomputed_io")
    info = _info("uint8", C, size, [cs], "jpeg")
    acc = DictAccessor()
    # the reader does not know the plane the writer used: the format fixes the row order, not the image geometry
    io = pio.PrecomputedIO(info, acc, encoder_options={"jpeg_plane": cfg["plane"], "jpeg_quality": cfg.get("quality", 95)})
    allv = []
    for cc in _chunks_of(size, cs):
        shape = (C, cc[5] - cc[4], cc[3] - cc[2], cc[1] - cc[0])
        chunk = SArray.fresh(shape, "uint8", "v%d_%d_%d_" % (cc[0], cc[2], cc[4]))
        allv += [e.e for e in chunk.a.ravel()]
        io.write_chunk(chunk, "k0", cc)
        stored = acc.chunks[("k0", tuple(cc))]
        acc.chunks[("k0", tuple(cc))] = bytes(stored.concrete()) if isinstance(stored, SBytes) else stored
        got = pio.PrecomputedIO(info, acc).read_chunk("k0", cc)
        ok = getattr(got, "shape", None) == shape and real_np.dtype(got.dtype) == real_np.uint8
        ctx.prove(ok, "same-shape-and-type", detail=f"{getattr(got, 'shape', None)} {getattr(got, 'dtype', None)} for {shape}")
        if not ok:
            continue
        conds = []
        for a, b in zip(got.a.ravel(), chunk.a.ravel()):
            d = z3.BV2Int(a.e) - z3.BV2Int(b.e)
            conds.append(z3.And(d <= codec.EPS, d >= -codec.EPS))
        ctx.prove(z3.And(conds), "every-voxel-within-the-codec-error-of-the-voxel-written-there")
    ctx.input("voxels", allv)
    ctx.sample(dict(C=C, size=size, cs=cs, plane=cfg["plane"]))


def H_unsafe(ctx, cfg):
    """A chunk whose dtype cannot be safely cast to the dataset type must not be stored truncated."""
    pio, ce = _patched()
    info = _info(cfg["dt_data"], 1, (2, 1, 1), [(2, 1, 1)], "raw")
    acc = DictAccessor()
    io = pio.PrecomputedIO(info, acc)
    dt = real_np.dtype(cfg["dt_chunk"])
    chunk = SArray.fresh((1, 1, 1, 2), dt if dt.kind != "f" or dt.itemsize == 4 else "float32", "v")
    chunk.dtype = dt
    try:
        io.write_chunk(chunk, "k0", (0, 2, 0, 1, 0, 1))
    except TypeError:
        ctx.prove(acc.calls == 0, "unsafe-cast-rejected-nothing-stored")
        return
    ctx.fail("unsafe-cast-stored")


def H_history(ctx, cfg):
    pio, ce = _patched()
    dtype, k = cfg["dtype"], cfg["k"]
    info = _info(dtype, 1, (2, 1, 1), [(1, 1, 1)], "raw")
    sc2 = dict(info["scales"][0])
    sc2 = dict(sc2, key="k1", size=[1, 1, 2], chunk_sizes=[[1, 1, 1]])
    info["scales"].append(sc2)
    slots = [("k0", (0, 1, 0, 1, 0, 1)), ("k0", (1, 2, 0, 1, 0, 1)), ("k1", (0, 1, 0, 1, 0, 1)), ("k1", (0, 1, 0, 1, 1, 2))]
    acc = DictAccessor()
    io = pio.PrecomputedIO(info, acc)
    last = {}
    hist = []
    for i in range(k):
        s = SInt.var(f"slot{i}", "int")
        ctx.assume(z3.And(s.e >= 0, s.e < len(slots)))
        si = s.__index__()
        hist.append(si)
        chunk = SArray.fresh((1, 1, 1, 1), dtype, f"w{i}")
        io.write_chunk(chunk, *slots[si])
        last[si] = chunk
    ctx.input("history", hist)
    ctx.sample(dict(history=hist))
    io2 = pio.PrecomputedIO(info, acc)
    for si, (key, cc) in enumerate(slots):
        if si in last:
            _same(ctx, io2.read_chunk(key, cc), last[si], "last-write-wins")
        else:
            try:
                io2.read_chunk(key, cc)
            except KeyError:
                ctx.ok("unwritten-slot-absent")
                continue
            ctx.fail("unwritten-slot-readable")


# --------------------------------------------------------------------- replay

class _RealDict:
    can_read = can_write = True

    def __init__(self):
        self.chunks = {}
        self.calls = 0

    def store_chunk(self, buf, key, chunk_coords, mime_type="application/octet-stream", overwrite=True):
        self.calls += 1
        self.chunks[(key, tuple(chunk_coords))] = bytes(buf)

    def fetch_chunk(self, key, chunk_coords):
        self.calls += 1
        return self.chunks[(key, tuple(chunk_coords))]


def replay(cfg, cex):
    pio = load.mod("precomputed_io")
    h = cfg["harness"]
    inp = cex["inputs"]
    if h == "jpeg":
        # quality 100 keeps the real codec within 3 grey levels on this kind of data (measured); the voxels written are
        # pairwise >= step apart, so a voxel that comes back from another position is off by at least `step`
        C, size, cs = cfg["C"], cfg["size"], cfg["cs"]
        info = _info("uint8", C, size, [cs], "jpeg")
        acc = _RealDict()
        io = pio.PrecomputedIO(info, acc, encoder_options={"jpeg_plane": cfg["plane"], "jpeg_quality": 100})
        for cc in _chunks_of(size, cs):
            shape = (C, cc[5] - cc[4], cc[3] - cc[2], cc[1] - cc[0])
            n = builtins.int(real_np.prod(shape))
            step = 240 // n
            chunk = (10 + step * real_np.random.RandomState(n).permutation(n)).astype(real_np.uint8).reshape(shape)
            try:
                io.write_chunk(chunk, "k0", cc)
                got = pio.PrecomputedIO(info, acc).read_chunk("k0", cc)
            except Exception as e:
                return True, f"JPEG round trip of chunk {cc} raised {type(e).__name__}: {e}"
            if got.shape != shape or got.dtype != real_np.uint8:
                return True, f"chunk {cc}: read back shape {got.shape} dtype {got.dtype}, written {shape} uint8"
            err = builtins.int(real_np.abs(got.astype(builtins.int) - chunk.astype(builtins.int)).max())
            if err > builtins.min(step - 1, 5):
                return True, f"chunk {cc} ({cfg['plane']} plane, {C} channel(s)): voxels come back up to {err} grey levels off: wrote {chunk.ravel().tolist()} read {got.ravel().tolist()}"
        return False, "JPEG round trip keeps every voxel in place on the real code"
    if h in ("grid", "reject"):
        size, coords = inp["size"], inp["coords"]
        info = _info("uint8", 1, size, cfg["cs_list"], "raw")
        acc = _RealDict()
        io = pio.PrecomputedIO(info, acc)
        want = any(all(0 <= coords[2 * d] < size[d] and coords[2 * d] % cs[d] == 0
                       and coords[2 * d + 1] == builtins.min(coords[2 * d] + cs[d], size[d]) for d in range(3))
                   for cs in cfg["cs_list"])
        got = io.validate_chunk_coords("k0", tuple(coords))
        if h == "grid":
            return got != want, f"validate_chunk_coords(size={size}, chunk_sizes={cfg['cs_list']}, coords={coords}) = {got}, grid predicate = {want}"
        if want:
            return False, "valid coordinates"
        try:
            io.write_chunk(real_np.zeros((1, 1, 1, 1), dtype="uint8"), "k0", tuple(coords))
        except AssertionError:
            return acc.calls != 0, "rejected"
        return True, f"write_chunk stored off-grid chunk {coords} for size {size}, chunk sizes {cfg['cs_list']}"
    if h == "accessors":
        import tempfile
        from . import _vol as V
        acc_mod = load.mod("accessor")
        dtype, C, size, cs = cfg["dtype"], cfg["C"], cfg["size"], cfg["cs"]
        sh = cfg.get("sharding")
        info = V.make_info(dtype, C, size, cs, cfg["encoding"], cfg.get("block"), sh)
        wopts = dict(cfg.get("wopts") or {})
        ropts = dict(cfg.get("ropts") or wopts)
        vox = list(inp.get("voxels") or [])
        with tempfile.TemporaryDirectory() as td:
            acc = acc_mod.get_accessor_for_url(td, dict(wopts, **({"sharding": "%d,%d,%d" % tuple(sh[:3])} if sh else {})))
            if sh:
                acc.info = info
            try:
                io = pio.get_IO_for_new_dataset(info, acc)
                chunks = _chunks_of(size, cs)
                order = [chunks[i] for i in cfg.get("order") or range(len(chunks))]
                written = {}
                for cc in order:
                    shape = (C, cc[5] - cc[4], cc[3] - cc[2], cc[1] - cc[0])
                    n = shape[0] * shape[1] * shape[2] * shape[3]
                    raw, vox = (vox[:n] + [0] * n)[:n], vox[n:]
                    if dtype == "float32":
                        chunk = real_np.array(raw, dtype=real_np.uint32).view(real_np.float32).reshape(shape)
                    else:
                        chunk = real_np.array(raw, dtype=real_np.uint64).astype(dtype).reshape(shape)
                    written[cc] = chunk
                    io.write_chunk(chunk, "full", cc)
                if sh:
                    acc.close()
            except Exception as e:
                return True, f"writing through the accessor raised {type(e).__name__}: {e}"
            io2 = pio.get_IO_for_existing_dataset(acc_mod.get_accessor_for_url(td, ropts))
            for cc, chunk in written.items():
                try:
                    got = io2.read_chunk("full", cc)
                except Exception as e:
                    return True, f"chunk {cc}: a fresh accessor ({ropts or 'sharded ' + str(sh)}) cannot read it back: {type(e).__name__}: {e}"
                if got.shape != chunk.shape or got.dtype != chunk.dtype or got.tobytes() != chunk.tobytes():
                    return True, f"chunk {cc}: wrote {chunk.ravel().tolist()} read {got.ravel().tolist()} ({got.dtype}, {got.shape})"
        return False, "identity holds through the real accessors"
    if h == "identity":
        dtype, C, size, cs = cfg["dtype"], cfg["C"], cfg["size"], cfg["cs"]
        info = _info(dtype, C, size, [cs], cfg["encoding"], cfg["block"])
        acc = _RealDict()
        io = pio.PrecomputedIO(info, acc)
        vox = list(inp["voxels"])
        written = {}
        for cc in _chunks_of(size, cs):
            shape = (C, cc[5] - cc[4], cc[3] - cc[2], cc[1] - cc[0])
            n = shape[0] * shape[1] * shape[2] * shape[3]
            raw, vox = vox[:n], vox[n:]
            if dtype == "float32":
                chunk = real_np.array(raw, dtype=real_np.uint32).view(real_np.float32).reshape(shape)
            else:
                chunk = real_np.array(raw, dtype=real_np.uint64).astype(dtype).reshape(shape)
            written[cc] = chunk
            try:
                io.write_chunk(chunk.astype(chunk.dtype.newbyteorder(">")) if cfg.get("big_endian") else
                               (real_np.asfortranarray(chunk) if cfg.get("order") == "F" else chunk), "k0", cc)
            except Exception as e:
                return True, f"write_chunk raised {type(e).__name__}: {e}"
        io2 = pio.PrecomputedIO(info, acc)
        for cc, chunk in written.items():
            for handle in (io, io2):
                try:
                    got = handle.read_chunk("k0", cc)
                except Exception as e:
                    return True, f"read_chunk raised {type(e).__name__}: {e}"
                if got.shape != chunk.shape or got.dtype != chunk.dtype or got.tobytes() != chunk.tobytes():
                    return True, f"chunk {cc}: wrote {chunk.ravel().tolist()} read {got.ravel().tolist()} ({got.dtype}, {got.shape})"
        return False, "identity holds on the real code"
    if h == "unsafe":
        info = _info(cfg["dt_data"], 1, (2, 1, 1), [(2, 1, 1)], "raw")
        acc = _RealDict()
        io = pio.PrecomputedIO(info, acc)
        try:
            io.write_chunk(real_np.ones((1, 1, 1, 2), dtype=cfg["dt_chunk"]), "k0", (0, 2, 0, 1, 0, 1))
        except TypeError:
            return acc.calls != 0, "rejected"
        return True, "unsafe cast stored"
    if h == "history":
        return True, "history violation (symbolic run); inspect inputs"
    return False, "unknown harness"
