"""C10 - decoders never misbehave on malformed chunk data."""
import builtins

import numpy as real_np
import z3

from .. import load
from ..findings import regions_for
from ..sarray import NPProxy, SArray
from ..sbytes import SByteArray, SBytes, StructProxy

PROPERTY = "C10"
MODULES = ["_compressed_segmentation", "chunk_encoding", "utils", "_jpeg"]
FUNCTIONS = ["chunk_encoding.CompressedSegmentationEncoder.decode", "_compressed_segmentation.decode_chunk_into",
             "_compressed_segmentation._decode_channel_into", "_compressed_segmentation._unpack_encoded_values",
             "chunk_encoding.RawChunkEncoder.decode", "utils.ceil_div", "chunk_encoding.JpegChunkEncoder.decode", "_jpeg.decode_chunk",
             "_compressed_segmentation.encode_chunk (harness 'mutate': source of valid files)"]
STUBS = ["np -> NPProxy (frombuffer over symbolic bytes; np.empty = poison)",
         "PIL (harness 'jpeg') -> nondeterministic stub constrained by Pillow's contract: Image.open raises or returns an image whose "
         "mode in {L, RGB, CMYK, 1}, width and height are symbolic; converting it to an array either raises OSError (truncated / corrupt "
         "scan data are detected lazily) or yields symbolic pixels",
         "struct -> StructProxy: header words are python-int-valued wide bit-vectors; struct.error raised under CPython's conditions",
         "slice bounds derived from header words are case-split over 0..len(buf) (complete for Python slicing)"]
ASSUMPTIONS = ["all loops run over concrete grids (no unbounded loop exists in the decoders: the 'never hangs' clause)"]
EXPLANATION = ("Every byte of the buffer is a symbolic 8-bit term, the length is enumerated; every feasible path of the "
               "real decoder must end in an array of the requested shape/dtype or InvalidFormatError. In harness "
               "'mutate' a valid file produced by the real encoder from symbolic labels gets one byte replaced by an "
               "arbitrary byte or is truncated at every position.")
BOUNDS = {
    "quick": "compressed_segmentation, every byte symbolic: single-block chunks, C in {1,2}, uint32+uint64, block (1,1,1) and "
             "(2,2,2), every length 0..22 incl. the differential clause against a spec-only decoder (well-formed files are decoded, to the prescribed labels); a two-block file from the real encoder with "
             "one whole 8-byte block header symbolic (every block position), two-channel files with the whole channel offset table symbolic; raw: all five dtypes, C in 1..3, every length 0..itemsize*voxels+9; "
             "mutate: every single-byte replacement and truncation of the encodings of 2-voxel chunks",
    "thorough": "lengths up to 36 (C=1), up to 24 (C=2: the first length with two complete channels); two-block files with every byte symbolic at lengths 12..24 under a wall "
                "budget (truncation reported as inconclusive); header/mutate harnesses on 4-8 voxel chunks",
}
OUTSIDE = ["the JPEG bit-stream decoding itself (libjpeg through Pillow is compiled code): harness 'jpeg' replaces Pillow by a "
           "nondeterministic stub (open raises / image of arbitrary mode and size / lazy load raises OSError or yields arbitrary pixels)", "buffers longer than the stated lengths",
           "'valid data' is taken conservatively: every range a file references lies inside it and every voxel of every block "
           "(padding included) indexes an existing table entry"]


def configs(tier, seed):
    out = []
    quick = tier == "quick"
    cases = [  # C, (Z,Y,X), block(x,y,z), dtype, lengths
        (1, (1, 1, 1), (1, 1, 1), "uint32", range(0, 23 if quick else 37)),
        (1, (1, 1, 1), (1, 1, 1), "uint64", range(0, 23 if quick else 37)),
        (1, (1, 1, 1), (2, 2, 2), "uint32", range(8, 21 if quick else 33)),     # chunk smaller than the block
        # two channels: below 24 bytes everything is "too short"; from 24 on the path count is the
        # product over the channels (680 s for L=24), hence thorough only; the quick tier covers the
        # channel table with harness 'chantable'
        (2, (1, 1, 1), (1, 1, 1), "uint32", (0, 7, 8, 23) if quick else list(range(0, 24, 5)) + [24]),
        (2, (1, 1, 1), (1, 1, 1), "uint64", (0, 23) if quick else (23, 24)),
    ]
    if not quick:
        # two blocks with every byte symbolic: path count is the product over blocks (slice bounds,
        # bit widths); run under a wall budget, truncated runs are reported as inconclusive
        cases += [(1, (1, 1, 2), (1, 1, 1), "uint32", (20, 24)), (1, (1, 1, 2), (2, 1, 1), "uint64", (12, 16, 20, 24)),
                  (1, (2, 1, 1), (1, 1, 2), "uint32", range(8, 25))]
    for C, shape, block, dtype, lens in cases:
        for L in lens:
            out.append(dict(harness="cseg", C=C, shape=list(shape), block=list(block), dtype=dtype, L=L,
                            cost=(1 + L * L // 50) * (40 if C == 2 and L >= 24 else 1), wall=(3000 if C == 2 and L >= 24 else 1200), max_paths=200000, timeout_ms=30000))
    hdr = [(1, (1, 1, 2), (1, 1, 1), "uint32")]
    if not quick:
        hdr += [(1, (1, 2, 2), (1, 1, 1), "uint64"), (2, (1, 1, 2), (1, 1, 1), "uint32"), (1, (2, 2, 2), (1, 2, 1), "uint32"), (2, (1, 2, 2), (2, 1, 1), "uint64")]
    for dtype in ("uint32", "uint64"):
        # uint64: label bytes reinterpreted as headers make the exploration very deep -> concrete labels in quick
        out.append(dict(harness="header", C=2, shape=[1, 1, 1], block=[1, 1, 1], dtype=dtype, k=-1, cost=8,
                        wall=900 if quick else 3000, max_paths=100000,
                        concrete_labels=(dtype == "uint64" and quick)))
    for C, shape, block, dtype in hdr:
        Z, Y, X = shape
        nblocks = C * (-(-X // block[0])) * (-(-Y // block[1])) * (-(-Z // block[2]))
        for k in range(nblocks):
            out.append(dict(harness="header", C=C, shape=list(shape), block=list(block), dtype=dtype, k=k,
                            cost=6, wall=900, max_paths=100000))
    for dtype in ("uint8", "uint16", "uint32", "uint64", "float32"):
        for C in (1, 2, 3):
            out.append(dict(harness="raw", dtype=dtype, C=C, shape=[1, 2, 2], cost=1))
    for C, shape, plane, wm, hm in ((1, (2, 2, 1), "xy", 8, 8), (3, (1, 2, 2), "xz", 4, 4), (1, (1, 3, 2), "xz", 12, 3)) + (
            () if quick else ((3, (2, 2, 2), "xy", 6, 8), (1, (2, 3, 2), "xy", 12, 12))):
        out.append(dict(harness="jpeg", C=C, shape=list(shape), plane=plane, wmax=wm, hmax=hm, cost=4))
    mut = [(1, (1, 1, 2), (2, 1, 1), "uint32"), (2, (1, 1, 1), (1, 1, 1), "uint32"),
           # non-cubic block on an anisotropic chunk, both ways round (block extent along x vs z)
           (1, (1, 1, 2), (1, 1, 2), "uint32"), (1, (2, 1, 1), (1, 1, 2), "uint32")]
    if not quick:
        mut += [(1, (1, 1, 2), (1, 1, 1), "uint64"), (1, (1, 2, 2), (2, 2, 1), "uint64"), (2, (1, 1, 2), (2, 1, 1), "uint32")]
    for C, shape, block, dtype in mut:
        for pos in range(0, 56 if quick else 96):
            out.append(dict(harness="mutate", C=C, shape=list(shape), block=list(block), dtype=dtype, pos=pos,
                            cost=2, may_be_vacuous=True, wall=600))
    return out


def _patched():
    npx = NPProxy()
    ce = load.patch("chunk_encoding", np=npx)
    cs = load.patch("_compressed_segmentation", np=npx, struct=StructProxy(), bytearray=SByteArray)
    return ce, cs


def _judge(ctx, ce, enc, buf, C, shape, dtype, differential=False):
    Z, Y, X = shape
    rejected = False
    out = None
    try:
        out = enc.decode(buf, (X, Y, Z))
    except ce.InvalidFormatError:
        ctx.ok("InvalidFormatError")
        rejected = True
    if not rejected:
        ok = getattr(out, "shape", None) == (C, Z, Y, X) and real_np.dtype(out.dtype) == real_np.dtype(dtype)
        ctx.prove(ok, "returned-array-has-requested-shape-and-dtype", detail=f"{getattr(out, 'shape', None)} {getattr(out, 'dtype', None)}")
        if not ok:
            return
    if not differential:
        return
    # differential clause: a file that the format text accepts must be decoded, and to the same labels
    from ..oracles import cseg as spec
    try:
        ref = spec.spec_decode_sym(ctx, buf, C, (Z, Y, X), enc.block_size, real_np.dtype(dtype).itemsize)
    except spec.SpecError:
        ctx.ok("spec-reader-rejects-too" if rejected else "spec-reader-stricter-than-decoder")
        return
    if rejected:
        ctx.fail("valid-data-rejected", detail="the file is well formed according to the format text")
        return
    conds = [out.a[c, z, y, x].e == ref[c][z][y][x] for c in range(C) for z in range(Z) for y in range(Y) for x in range(X)]
    ctx.prove(z3.And(conds), "valid-data-decoded-to-the-labels-the-format-prescribes")


def H_cseg(ctx, cfg):
    ce, cs = _patched()
    C, dtype, L = cfg["C"], cfg["dtype"], cfg["L"]
    bs = [z3.BitVec(f"b{i}", 8) for i in range(L)]
    buf = SBytes(bs)
    ctx.input("buf", bs)
    for fid, expr in regions_for(PROPERTY, "cseg"):
        ctx.region(fid, eval(expr, {"z3": z3, "b": bs, "C": C, "L": L, "cfg": cfg}))
    enc = ce.CompressedSegmentationEncoder(dtype, C, cfg["block"])
    _judge(ctx, ce, enc, buf, C, cfg["shape"], dtype, differential=True)


def H_raw(ctx, cfg):
    ce, _ = _patched()
    C, dtype = cfg["C"], cfg["dtype"]
    Z, Y, X = cfg["shape"]
    n = real_np.dtype(dtype).itemsize * C * Z * Y * X
    enc = ce.RawChunkEncoder(dtype, C)
    L = SIntLen = None
    # the length is a harness-level case split (frombuffer/reshape do not look at the contents)
    from ..values import SInt
    Ls = SInt.var("L", "int")
    ctx.assume(z3.And(Ls.e >= 0, Ls.e <= n + 9))
    L = Ls.__index__()
    bs = [z3.BitVec(f"b{i}", 8) for i in range(L)]
    ctx.input("buf", bs)
    ctx.input("L", L)
    _judge(ctx, ce, enc, SBytes(bs), C, cfg["shape"], dtype)


def H_header(ctx, cfg):
    """A valid multi-block file (real encoder, symbolic labels) whose k-th 8-byte block header is
    replaced by arbitrary bytes: the other blocks exercise the header indexing and chunk placement."""
    ce, cs = _patched()
    C, dtype, k = cfg["C"], cfg["dtype"], cfg["k"]
    Z, Y, X = cfg["shape"]
    chunk = SArray.fresh((C, Z, Y, X), dtype, "v")
    if cfg.get("concrete_labels"):
        for i, x in enumerate(chunk.a.ravel()):
            ctx.assume(x.e == 0x0102030405060708 * (i + 1) % (1 << x.bits))
    enc = ce.CompressedSegmentationEncoder(dtype, C, cfg["block"])
    valid = SBytes(enc.encode(chunk))
    ctx.input("chunk", [x.e for x in chunk.a.ravel()])
    bx, by, bz = cfg["block"]
    per = (-(-X // bx)) * (-(-Y // by)) * (-(-Z // bz))
    if k == -1:          # the channel offset table (two channels)
        pos = 0
    else:
        c, kk = divmod(k, per)
        choff = valid.word(4 * c, 4)
        assert isinstance(choff, builtins.int)
        pos = 4 * choff + 8 * kk
    hb = [z3.BitVec(f"h{i}", 8) for i in range(8)]
    ctx.input("header", hb)
    ctx.input("pos", pos)
    bs = list(valid.bs)
    bs[pos:pos + 8] = hb
    _judge(ctx, ce, enc, SBytes(bs), C, cfg["shape"], dtype, differential=True)


def H_mutate(ctx, cfg):
    ce, cs = _patched()
    C, dtype, pos = cfg["C"], cfg["dtype"], cfg["pos"]
    Z, Y, X = cfg["shape"]
    chunk = SArray.fresh((C, Z, Y, X), dtype, "v")
    enc = ce.CompressedSegmentationEncoder(dtype, C, cfg["block"])
    valid = SBytes(enc.encode(chunk))
    ctx.input("chunk", [x.e for x in chunk.a.ravel()])
    if pos >= len(valid):
        # truncation at pos - len(valid) (every prefix)
        cut = pos - len(valid)
        if cut > len(valid):
            ctx.ok("position-beyond-file")
            return
        ctx.input("mutation", ["truncate", cut])
        buf = valid[:cut]
    else:
        m = z3.BitVec("m", 8)
        ctx.input("mutation", ["replace", pos, m])
        bs = list(valid.bs)
        bs[pos] = m
        buf = SBytes(bs)
    _judge(ctx, ce, enc, buf, C, cfg["shape"], dtype)


# --------------------------------------------------------------------- JPEG decoder with Pillow as a nondeterministic stub

_MODES = ["L", "RGB", "CMYK", "1"]
_BANDS = {"L": 1, "RGB": 3, "CMYK": 4, "1": 1}


class _FakeImage:
    """What PIL.Image.open returns: header fields are known, the pixels are decoded lazily (np.asarray(img) -> load()),
    which is where Pillow reports truncated / corrupt scan data (OSError)."""
    def __init__(self, mode, w, h, load_ok, name):
        self.mode, self.size, self._load_ok, self._name = mode, (w, h), load_ok, name
        self.width, self.height = w, h
        self.format = "JPEG"
        self._pixels = None

    def __sarray__(self):
        if not self._load_ok:
            from ..core import cur
            if cur().decide(z3.Bool("load_fails_with_value_error")):
                raise ValueError("tile cannot extend outside image")       # Pillow also reports corrupt data this way
            raise OSError("image file is truncated (0 bytes not processed)")
        if self._pixels is None:
            w, h = self.size
            b = _BANDS[self.mode]
            shape = (h, w) if b == 1 else (h, w, b)
            self._pixels = SArray.fresh(shape, "bool" if self.mode == "1" else "uint8", self._name)
        return self._pixels


def _fake_pil(ctx, wmax, hmax, made):
    import types

    class UnidentifiedImageError(OSError):
        pass

    class DecompressionBombError(Exception):      # Pillow: derives from Exception, not from OSError
        pass

    def open_(fp, *a, **k):
        if ctx.decide(z3.Bool("open_fails")):
            if ctx.decide(z3.Bool("open_fails_with_bomb_error")):
                raise DecompressionBombError("Image size (4294836225 pixels) exceeds limit of 178956970 pixels, could be decompression bomb DOS attack.")
            raise UnidentifiedImageError("cannot identify image file")
        mi, w, h = z3.Int("mode"), z3.Int("w"), z3.Int("h")
        ctx.assume(z3.And(mi >= 0, mi < len(_MODES), w >= 1, w <= wmax, h >= 1, h <= hmax))
        mode = _MODES[ctx.concretize(mi)]
        wv, hv = ctx.concretize(w), ctx.concretize(h)
        img = _FakeImage(mode, wv, hv, not ctx.decide(z3.Bool("load_fails")), "px")
        made.append(img)
        return img
    image = types.SimpleNamespace(open=open_, UnidentifiedImageError=UnidentifiedImageError)
    return types.SimpleNamespace(Image=image, UnidentifiedImageError=UnidentifiedImageError)


def H_jpeg(ctx, cfg):
    """decode_chunk with Pillow replaced by a stub returning an arbitrary outcome within Pillow's documented behaviour:
    open() raises, or returns an image of arbitrary mode and size whose lazy load either raises OSError or yields
    arbitrary pixels.  The decoder must answer InvalidFormatError or an array of the requested shape; when the image
    has the right mode and exactly x*y*z pixels (the format's validity condition) it must return them in row order."""
    import types
    C = cfg["C"]
    Z, Y, X = cfg["shape"]
    npx = NPProxy()
    ce = load.patch("chunk_encoding", np=npx)
    made = []
    pil = _fake_pil(ctx, cfg["wmax"], cfg["hmax"], made)
    load.patch("_jpeg", np=npx, PIL=pil, io=types.SimpleNamespace(BytesIO=lambda b: b))
    enc = ce.JpegChunkEncoder("uint8", C, jpeg_plane=cfg.get("plane", "xy"))
    buf = SBytes([z3.BitVec(f"b{i}", 8) for i in range(4)])
    ctx.input("stub", dict(open_fails=z3.Bool("open_fails"), bomb=z3.Bool("open_fails_with_bomb_error"), load_fails=z3.Bool("load_fails"), mode=z3.Int("mode"),
                           w=z3.Int("w"), h=z3.Int("h")))
    try:
        out = enc.decode(buf, (X, Y, Z))
    except ce.InvalidFormatError:
        img = made[0] if made else None
        valid = img is not None and img._load_ok and _BANDS[img.mode] == C and img.mode in ("L", "RGB") and \
            img.size[0] * img.size[1] == X * Y * Z
        ctx.prove(not valid, "valid-data-rejected", detail=f"mode {img.mode} size {img.size}" if img else "")
        return
    ok = getattr(out, "shape", None) == (C, Z, Y, X) and real_np.dtype(out.dtype) == real_np.uint8
    ctx.prove(ok, "returned-array-has-requested-shape-and-dtype", detail=f"{getattr(out, 'shape', None)} {getattr(out, 'dtype', None)}")
    if not ok:
        return
    img = made[0]
    px = img._pixels.a
    want = px.ravel() if C == 1 else real_np.moveaxis(px, -1, 0).ravel()
    got = out.a.ravel()
    ctx.prove(len(want) == len(got) and z3.And([a.e == b.e for a, b in zip(got, want)]),
              "voxels-are-the-image-rows-in-order")


# --------------------------------------------------------------------- replay

def _replay_jpeg(cfg, inp):
    """Build a real JPEG with the properties the stub chose and run the real decoder on it."""
    import io
    import PIL.Image
    ce = load.mod("chunk_encoding")
    st = inp["stub"]
    C = cfg["C"]
    Z, Y, X = cfg["shape"]
    enc = ce.JpegChunkEncoder("uint8", C, jpeg_plane=cfg.get("plane", "xy"))
    truthy = lambda v: v in (True, "True", 1)
    if truthy(st["open_fails"]) and truthy(st.get("bomb")):
        # a JPEG whose frame header announces 65535 x 65535 pixels: Pillow refuses it with DecompressionBombError
        f = io.BytesIO()
        PIL.Image.fromarray(real_np.zeros((8, 8), dtype=real_np.uint8)).save(f, format="jpeg")
        b = bytearray(f.getvalue())
        for marker in (b"\xff\xc0", b"\xff\xc2"):
            i = b.find(marker)
            if i >= 0:
                b[i + 5:i + 9] = b"\xff\xff\xff\xff"
        buf, desc, valid = bytes(b), "JPEG announcing 65535x65535 pixels", False
    elif truthy(st["open_fails"]):
        buf, desc, valid = b"\xff\xd8 not a jpeg", "garbage", False
    else:
        mode = _MODES[int(st["mode"])]
        w, h = int(st["w"]), int(st["h"])
        if mode == "1":
            mode = "CMYK"          # JPEG cannot store bilevel images: another mode that is neither L nor RGB
        b = _BANDS[mode]
        rng = real_np.random.RandomState(w * 31 + h)
        arr = rng.randint(0, 255, size=(h, w) if b == 1 else (h, w, b)).astype(real_np.uint8)
        f = io.BytesIO()
        PIL.Image.fromarray(arr, mode=mode).save(f, format="jpeg", quality=95)
        buf = f.getvalue()
        desc = f"{mode} JPEG {w}x{h}"
        valid = b == C and mode in ("L", "RGB") and w * h == X * Y * Z
        if truthy(st["load_fails"]):
            valid = False
            for n in range(len(buf) - 1, 0, -1):
                try:
                    im = PIL.Image.open(io.BytesIO(buf[:n]))
                except Exception:
                    continue
                try:
                    im.load()
                except Exception:
                    buf, desc = buf[:n], desc + f" truncated to {n} of {len(buf)} bytes"
                    break
    try:
        out = enc.decode(buf, (X, Y, Z))
    except ce.InvalidFormatError as e:
        if valid:
            return True, f"valid {desc} rejected for chunk size {(X, Y, Z)}: {e}"
        return False, "InvalidFormatError (allowed)"
    except Exception as e:
        return True, f"{desc}: decoder raised {type(e).__name__}: {e}"
    if out.shape != (C, Z, Y, X) or out.dtype != real_np.uint8:
        return True, f"{desc}: decoder returned shape {out.shape} for requested {(C, Z, Y, X)}"
    ref = real_np.asarray(PIL.Image.open(io.BytesIO(buf)))
    ref = ref.ravel() if C == 1 else real_np.moveaxis(ref, -1, 0).ravel()
    if not real_np.array_equal(out.ravel(), ref):
        return True, f"{desc}: voxels are not the image rows in order"
    return False, "array of the requested shape (allowed)"


def _run_real(enc, ce, buf, C, shape, dtype):
    Z, Y, X = shape
    from ..oracles import cseg as spec
    from ..harness.c04 import _ConcreteCtx
    ref = None
    try:
        ref = spec.spec_decode_sym(_ConcreteCtx(), SBytes(bytes(buf)), C, (Z, Y, X), enc.block_size, real_np.dtype(dtype).itemsize)
    except spec.SpecError:
        pass
    try:
        out = enc.decode(bytes(buf), (X, Y, Z))
    except ce.InvalidFormatError as e:
        if ref is not None:
            return True, f"well-formed file rejected ({e}): {bytes(buf).hex()}"
        return False, "InvalidFormatError (allowed)"
    except Exception as e:
        return True, f"decoder raised {type(e).__name__}: {e} on {bytes(buf).hex()}"
    if out.shape != (C, Z, Y, X) or out.dtype != real_np.dtype(dtype):
        return True, f"decoder returned shape {out.shape} dtype {out.dtype} on {bytes(buf).hex()}"
    if ref is not None:
        want = real_np.array([[[[z3.simplify(ref[c][z][y][x]).as_long() for x in range(X)] for y in range(Y)] for z in range(Z)]
                              for c in range(C)], dtype=dtype)
        if not real_np.array_equal(out, want):
            return True, f"well-formed file decoded to {out.ravel().tolist()}, the format prescribes {want.ravel().tolist()}: {bytes(buf).hex()}"
    return False, "array of the requested shape (allowed)"


def replay(cfg, cex):
    ce = load.mod("chunk_encoding")
    h = cfg["harness"]
    inp = cex["inputs"]
    if h == "jpeg":
        return _replay_jpeg(cfg, inp)
    if h == "cseg":
        enc = ce.CompressedSegmentationEncoder(cfg["dtype"], cfg["C"], cfg["block"])
        return _run_real(enc, ce, bytes(inp["buf"]), cfg["C"], cfg["shape"], cfg["dtype"])
    if h == "raw":
        enc = ce.RawChunkEncoder(cfg["dtype"], cfg["C"])
        return _run_real(enc, ce, bytes(inp["buf"]), cfg["C"], cfg["shape"], cfg["dtype"])
    if h == "header":
        C, dtype = cfg["C"], cfg["dtype"]
        Z, Y, X = cfg["shape"]
        chunk = real_np.array(inp["chunk"], dtype=real_np.uint64).astype(dtype).reshape(C, Z, Y, X)
        enc = ce.CompressedSegmentationEncoder(dtype, C, cfg["block"])
        buf = bytearray(enc.encode(chunk))
        buf[inp["pos"]:inp["pos"] + 8] = bytes(inp["header"])
        return _run_real(enc, ce, buf, C, cfg["shape"], dtype)
    if h == "mutate":
        C, dtype = cfg["C"], cfg["dtype"]
        Z, Y, X = cfg["shape"]
        chunk = real_np.array(inp["chunk"], dtype=real_np.uint64).astype(dtype).reshape(C, Z, Y, X)
        enc = ce.CompressedSegmentationEncoder(dtype, C, cfg["block"])
        buf = bytearray(enc.encode(chunk))
        mut = inp["mutation"]
        if mut[0] == "truncate":
            buf = buf[:mut[1]]
        else:
            buf[mut[1]] = mut[2]
        return _run_real(enc, ce, buf, C, cfg["shape"], dtype)
    return False, "unknown harness"
