"""C13 - re-encoding a dataset preserves its voxels exactly for lossless targets."""
import builtins
import copy

import numpy as real_np
import z3

from .. import load
from ..findings import regions_for
from ..modelfs import GzBlob
from ..sarray import SArray, SBV, cast_elem
from ..sbytes import SBytes
from . import _vol as V

PROPERTY = "C13"
MODULES = ["scripts.convert_chunks", "precomputed_io", "data_types", "chunk_encoding", "accessor"]
FUNCTIONS = ["scripts.convert_chunks.convert_chunks", "scripts.convert_chunks.convert_chunks_for_scale", "scripts.convert_chunks.main",
             "precomputed_io.get_IO_for_existing_dataset/get_IO_for_new_dataset", "data_types.get_chunk_dtype_transformer",
             "encoders and accessors as in C01"]
STUBS = ["as C01 (model file system, NPProxy, tqdm no-op, atexit run at the end of the simulated process)"]
ASSUMPTIONS = ["source and destination live on one model file system under different directories"]
EXPLANATION = ("The source dataset (1-2 scales with different chunk sizes) consists of symbolic voxels; the real convert_chunks "
               "runs; every chunk of every destination scale is read back with a fresh accessor and proved equal to the "
               "(type-converted) source voxel; a compressed_segmentation destination scale is decoded a second time with a decoder built for "
               "that scale alone from the info on disk (block sizes may differ per scale); the source files are compared byte-for-byte before/after.")
BOUNDS = {"quick": "sizes up to 4 per axis, 1-2 channels, 1-2 scales; raw<->compressed_segmentation (one block size, or one per scale on either side), uint8->uint32/uint64, uint32->uint64, "
                   "deep/flat/gzip/sharded destinations and sources, remote (model HTTP server) flat and sharded sources, with and without --copy-info, through main(argv) as well",
          "thorough": "3 scales; every source x destination layout pair; 6 sharding parameter triples x 4 index/data encoding pairs on the destination and on the source side (local and remote); every widening pair of unsigned types, raw and into compressed_segmentation"}
OUTSIDE = ["lossy (JPEG) targets", "narrowing conversions (C11)"]


def _cfg(size, cs_list, C, sd, dd, senc="raw", denc="raw", slay="deep", dlay="deep", copy_info=False, via_main=False, **kw):
    d = dict(harness="convert", size=list(size), cs_list=[list(c) for c in cs_list], C=C, sd=sd, dd=dd, senc=senc, denc=denc,
             slay=slay, dlay=dlay, copy_info=copy_info, via_main=via_main, cost=2, wall=1200)
    d.update(kw)
    return d


def configs(tier, seed):
    out = [
        _cfg((4, 3, 2), [(2, 2, 2), (2, 2, 1)], 1, "uint8", "uint8", dlay="flat"),
        _cfg((3, 2, 2), [(2, 2, 2)], 2, "uint16", "uint16", dlay="gzip", copy_info=True),
        _cfg((2, 2, 2), [(2, 2, 2), (1, 1, 1)], 1, "uint32", "uint32", denc="compressed_segmentation", cost=6),
        _cfg((2, 2, 1), [(2, 2, 1)], 1, "uint64", "uint64", senc="compressed_segmentation", denc="raw", dlay="flat", cost=4),
        _cfg((3, 2, 1), [(2, 2, 2)], 1, "uint8", "uint32"), _cfg((2, 3, 2), [(2, 2, 2)], 1, "uint8", "uint64", dlay="gzip"),
        _cfg((4, 2, 2), [(2, 2, 2), (2, 2, 2)], 1, "uint32", "uint64", dlay="sharded"),
        _cfg((4, 4, 2), [(2, 2, 2)], 1, "uint16", "uint16", slay="sharded", dlay="deep"),
        _cfg((3, 3, 1), [(2, 2, 2)], 1, "float32", "float32", slay="gzip", dlay="flat", via_main=True),
        _cfg((2, 2, 2), [(2, 2, 2)], 1, "uint8", "uint32", denc="compressed_segmentation", copy_info=False, cost=6),
        _cfg((4, 1, 3), [(2, 1, 1), (4, 1, 2)], 2, "uint8", "uint8", slay="flat", dlay="sharded", via_main=True),
        # sharded destinations / sources with other sharding parameters (gzip index and data, several minishards per shard)
        _cfg((4, 4, 2), [(2, 2, 2)], 1, "uint16", "uint16", dlay="sharded", shspec=(2, 0, 0, "gzip", "raw"), cost=3),
        _cfg((4, 2, 2), [(2, 2, 2)], 1, "uint8", "uint8", dlay="sharded", shspec=(1, 1, 1, "gzip", "gzip"), cost=3),
        _cfg((4, 2, 2), [(2, 2, 2)], 1, "uint8", "uint16", slay="sharded", dlay="gzip", shspec=(1, 0, 0, "gzip", "gzip"), cost=3),
        # compressed_segmentation on both sides with different block sizes (the chunks must be re-encoded)
        _cfg((2, 2, 1), [(2, 2, 1)], 1, "uint32", "uint32", senc="compressed_segmentation", denc="compressed_segmentation",
             sblock=[2, 2, 1], dblock=[1, 2, 1], cost=8),
        # a pyramid whose scales have different compressed_segmentation block sizes (source or destination side); the
        # destination is decoded twice: through PrecomputedIO and with a decoder built for the one scale
        _cfg((2, 2, 2), [(2, 2, 2), (1, 1, 1)], 1, "uint32", "uint32", denc="compressed_segmentation", dblock=[[2, 2, 2], [1, 1, 1]], cost=6),
        _cfg((4, 2, 1), [(2, 2, 1), (2, 1, 1)], 1, "uint64", "uint64", senc="compressed_segmentation", denc="compressed_segmentation",
             sblock=[[1, 2, 1], [2, 1, 1]], dblock=[[2, 1, 1], [1, 1, 1]], cost=10),
        # scales stored with two chunk sizes side by side (the second not a multiple of the first)
        _cfg((4, 4, 2), [(4, 4, 2)], 1, "uint8", "uint16", dlay="flat", alt_cs={"0": [2, 2, 2]}, copy_info=True, cost=3),
        _cfg((3, 2, 2), [(2, 2, 2), (2, 1, 1)], 1, "uint16", "uint16", slay="gzip", alt_cs={"0": [3, 1, 1], "1": [1, 1, 1]}, cost=3),
        # strongly anisotropic chunk sizes (every pair of axes differs)
        _cfg((2, 4, 4), [(2, 4, 1)], 1, "uint16", "uint16", dlay="flat"),
        _cfg((4, 2, 4), [(1, 2, 4), (4, 1, 2)], 1, "uint8", "uint8", dlay="gzip"),
        _cfg((3, 4, 2), [(3, 1, 2)], 1, "uint8", "uint16", slay="gzip"),
        # multi-channel compressed_segmentation destination (channels may share label sets)
        _cfg((2, 2, 1), [(2, 2, 1)], 2, "uint32", "uint32", denc="compressed_segmentation", cost=8),
        # remote sources: the source directory is served by the model HTTP server (flat layout, gzip on/off)
        _cfg((3, 2, 2), [(2, 2, 2), (2, 1, 1)], 1, "uint16", "uint16", slay="flat", dlay="deep", remote=True),
        _cfg((2, 2, 3), [(2, 2, 2)], 2, "uint8", "uint32", slay="flat_gzip", dlay="sharded", remote=True),
        # remote sharded sources (two scales read through one accessor; gzip index and data)
        _cfg((4, 2, 2), [(2, 2, 2), (2, 2, 2)], 1, "uint16", "uint16", slay="sharded", dlay="deep", remote=True, cost=3),
        _cfg((4, 4, 2), [(2, 2, 2), (2, 2, 2)], 1, "uint8", "uint8", slay="sharded", dlay="flat", remote=True, shspec=(1, 0, 0, "gzip", "gzip"), cost=3),
    ]
    if tier == "thorough":
        out += [_cfg((4, 4, 4), [(2, 2, 2), (2, 2, 2), (1, 1, 1)], 1, "uint16", "uint16", dlay="sharded", cost=5),
                _cfg((3, 2, 1), [(2, 2, 1)], 1, "uint64", "uint64", senc="compressed_segmentation", denc="compressed_segmentation", cost=40, wall=900),
                _cfg((3, 3, 3), [(2, 2, 2), (4, 4, 4)], 3, "uint8", "uint16", slay="gzip", dlay="gzip")]
        # every pair of source / destination layouts, alternating data types, channels, copy-info and the command line
        n = 0
        for slay in ("deep", "flat", "gzip", "flat_gzip", "sharded"):
            for dlay in ("deep", "flat", "gzip", "sharded"):
                n += 1
                sd, dd = (("uint8", "uint8"), ("uint8", "uint16"), ("uint16", "uint64"), ("float32", "float32"), ("uint32", "uint32"))[n % 5]
                both_plain = "sharded" not in (slay, dlay)
                out.append(_cfg((3, 2, 2) if n % 2 else (2, 4, 2), [(2, 2, 2), (2, 2, 2)] if n % 3 else [(2, 2, 2)], 1 + n % 2, sd, dd, slay=slay, dlay=dlay,
                                copy_info=(sd == dd and n % 4 == 0 and slay != "sharded" and dlay != "sharded"), via_main=(n % 6 == 0 and both_plain),
                                remote=(n % 7 == 0 and slay in ("flat", "flat_gzip", "sharded")), cost=3))
        # sharding parameters x index / data encodings, on the destination and on the source side
        for k, (m_, s_, p_) in enumerate(((0, 0, 0), (1, 0, 0), (0, 1, 0), (1, 1, 1), (2, 0, 1), (0, 2, 0))):
            for j, (ie, de) in enumerate((("raw", "raw"), ("gzip", "gzip"), ("raw", "gzip"), ("gzip", "raw"))):
                dt = ("uint8", "uint16", "uint32", "uint64")[(k + j) % 4]
                out.append(_cfg((4, 2, 2), [(2, 2, 2)], 1, "uint8", dt, dlay="sharded", shspec=(m_, s_, p_, ie, de), cost=3))
                out.append(_cfg((2, 4, 2), [(2, 2, 2), (2, 2, 2)], 1, dt, dt, slay="sharded", dlay=("flat", "gzip")[j % 2], shspec=(m_, s_, p_, ie, de),
                                remote=bool((k + j) % 3 == 0), cost=3))
        # every widening pair of unsigned types (raw), and every pair into a compressed_segmentation destination
        us = ["uint8", "uint16", "uint32", "uint64"]
        for i, a in enumerate(us):
            for b in us[i:]:
                out.append(_cfg((3, 2, 1), [(2, 2, 2)], 1 + i % 2, a, b, slay=("deep", "gzip")[i % 2], dlay=("flat", "deep")[len(b) % 2], cost=2))
                if b in ("uint32", "uint64"):
                    out.append(_cfg((2, 2, 1), [(2, 2, 1)], 1, a, b, denc="compressed_segmentation", dblock=[2, 1, 1] if i % 2 else None, cost=8))
    return out


def _info(cfg, dtype, enc, layout, block=None):
    scales = []
    size = list(cfg["size"])
    cubic = "sharded" in (cfg["slay"], cfg["dlay"])      # the tool keeps the chunk grid: both sides share the chunk sizes
    for i, cs in enumerate(cfg["cs_list"]):
        alt = (cfg.get("alt_cs") or {}).get(str(i))
        sc = dict(key=f"s{i}", size=list(size), chunk_sizes=[list(cs) if not cubic else [max(cs)] * 3] + ([list(alt)] if alt else []), encoding=enc,
                  resolution=[2 ** i] * 3, voxel_offset=[0, 0, 0])
        if enc == "compressed_segmentation":
            # block: one block size for every scale, or a list with one block size per scale
            sc["compressed_segmentation_block_size"] = list((block[i] if block and isinstance(block[0], list) else block) or [2, 2, 2])
        if layout == "sharded":
            m, s_, p_, ienc, denc_ = cfg.get("shspec", (1, 1, 0, "raw", "raw"))
            sc["sharding"] = {"@type": "neuroglancer_uint64_sharded_v1", "minishard_bits": m, "shard_bits": s_, "preshift_bits": p_,
                              "hash": "identity", "minishard_index_encoding": ienc, "data_encoding": denc_}
        scales.append(sc)
        size = [-(-s // 2) for s in size]
    return dict(type="image", data_type=dtype, num_channels=cfg["C"], scales=scales)


def _opts(layout):
    return dict(flat=layout in ("flat", "flat_gzip"), gzip=layout in ("gzip", "flat_gzip"))


def _same_file(a, b):
    if isinstance(a, GzBlob) or isinstance(b, GzBlob):
        if not (isinstance(a, GzBlob) and isinstance(b, GzBlob)):
            return False
        r = a == b
    else:
        r = SBytes(a) == SBytes(b)
    return r if isinstance(r, bool) else r.e


def H_convert(ctx, cfg):
    W = V.World()
    src_url, dst_url = "/mfs/src", "/mfs/dst"
    sinfo = _info(cfg, cfg["sd"], cfg["senc"], cfg["slay"], cfg.get("sblock"))
    dinfo = _info(cfg, cfg["dd"], cfg["denc"], cfg["dlay"], cfg.get("dblock"))
    W.put_info(src_url, sinfo)
    levels = []
    allv = []
    sacc = W.accessor(src_url, _opts(cfg["slay"]))
    sio = W.pio.get_IO_for_existing_dataset(sacc)
    for i, sc in enumerate(sinfo["scales"]):
        X, Y, Z = sc["size"]
        lvl = SArray.fresh((cfg["C"], Z, Y, X), cfg["sd"], f"v{i}")
        allv.append([x.e for x in lvl.a.ravel()])
        levels.append(lvl)
    ctx.input("levels", allv)
    for i, sc in enumerate(sinfo["scales"]):
        X, Y, Z = sc["size"]
        lvl = levels[i]
        for cs in sc["chunk_sizes"]:         # a scale may be stored with several chunk sizes side by side
            for x0 in range(0, X, cs[0]):
                for y0 in range(0, Y, cs[1]):
                    for z0 in range(0, Z, cs[2]):
                        cc = (x0, min(x0 + cs[0], X), y0, min(y0 + cs[1], Y), z0, min(z0 + cs[2], Z))
                        sio.write_chunk(lvl[:, cc[4]:cc[5], cc[2]:cc[3], cc[0]:cc[1]], sc["key"], cc)
    W.finish()
    ctx.input("levels", allv)
    for fid, expr in regions_for(PROPERTY, "convert"):
        ctx.region(fid, builtins.bool(eval(expr, {"cfg": cfg})))
    before = {p: d for p, d in W.env.fs.files.items() if p.startswith(src_url + "/")}
    if not cfg["copy_info"]:
        W.put_info(dst_url, dinfo)
    cc_mod = W.script("convert_chunks", np=W.npx, tqdm=V.NoTqdm)
    options = _opts(cfg["dlay"])
    if cfg.get("remote"):
        from ..modelhttp import ModelServer, make_requests
        server = ModelServer(W.env.fs, src_url, "http://h.test/src")
        rq = make_requests(server)
        load.patch("http_accessor", requests=rq)
        load.patch("sharded_http_accessor", requests=rq, np=W.npx)
        src_arg = "http://h.test/src"
    else:
        src_arg = src_url
    try:
        if cfg["via_main"]:
            argv = ["convert-chunks", src_arg, dst_url] + (["--flat"] if options["flat"] else []) + ([] if options["gzip"] else ["--no-gzip"])
            load.patch("utils", init_logging_for_cmdline=lambda: None)
            rc = cc_mod.main(argv)
            ctx.prove(rc == 0, "exit-status-0", detail=str(rc))
        else:
            cc_mod.convert_chunks(src_arg, dst_url, copy_info=cfg["copy_info"], options=options)
        W.finish()
    except Exception as e:
        if type(e).__name__ in ("OutsideModel", "Inconclusive"):
            raise
        ctx.fail("convert-chunks-raised", detail=f"{type(e).__name__}: {e}", exc=repr(e)[:200])
        return
    after = {p: d for p, d in W.env.fs.files.items() if p.startswith(src_url + "/")}
    ctx.prove(sorted(before) == sorted(after), "source-file-set-unchanged")
    same = [_same_file(before[p], after[p]) for p in before if p in after]
    same = [z3.BoolVal(c) if isinstance(c, bool) else c for c in same]
    ctx.prove(z3.And(same) if same else True, "source-files-byte-identical")
    want_info = sinfo if cfg["copy_info"] else dinfo
    ddt = want_info["data_type"]
    ctx.sample(dict(cfg={k: cfg[k] for k in ("size", "cs_list", "sd", "dd", "senc", "denc", "slay", "dlay", "copy_info", "via_main")}))
    ropts = _opts(cfg["dlay"])
    for i in range(len(want_info["scales"])):
      for ci in range(len(want_info["scales"][i]["chunk_sizes"])):
       for own in ((False, True) if want_info["scales"][i]["encoding"] == "compressed_segmentation" else (False,)):
        got, problems, rinfo = W.read_scale(dst_url, want_info, i, ropts, cs_index=ci, own_decoder=own)
        if problems:
            ctx.fail("destination-chunk-missing-or-unreadable", detail=f"scale {i} chunk size {ci}{' (decoder of this scale alone)' * own}: " + "; ".join(problems[:2]))
            return
        conds = []
        for idx in real_np.ndindex(*got.shape):
            if got[idx] is None:
                ctx.fail("destination-voxel-not-written", detail=f"scale {i} {idx}")
                return
            src = levels[i].a[idx]
            if ddt != cfg["sd"]:
                src = cast_elem(src, ddt)
            conds.append(V.eq_elems(got[idx], src))
        ctx.prove(z3.And(conds), f"scale-{i}-decodes-to-the-source-voxels" + "-with-its-own-decoder" * own)


# --------------------------------------------------------------------- replay

def _close_sharded_accessors():
    """What the atexit hook of ShardedFileAccessor does at the end of the process."""
    import gc
    sfa = load.mod("sharded_file_accessor")
    for o in gc.get_objects():
        if isinstance(o, sfa.ShardedFileAccessor):
            o.close()


def replay(cfg, cex):
    import os
    import tempfile
    cc_mod = load.mod("scripts.convert_chunks")
    pio = load.mod("precomputed_io")
    acc_mod = load.mod("accessor")
    with tempfile.TemporaryDirectory() as td:
        src_url, dst_url = os.path.join(td, "src"), os.path.join(td, "dst")
        sinfo = _info(cfg, cfg["sd"], cfg["senc"], cfg["slay"], cfg.get("sblock"))
        dinfo = _info(cfg, cfg["dd"], cfg["denc"], cfg["dlay"], cfg.get("dblock"))
        sacc = acc_mod.get_accessor_for_url(src_url, dict(_opts(cfg["slay"]), **({"sharding": "1,1,0"} if cfg["slay"] == "sharded" else {})))
        if cfg["slay"] == "sharded":
            sacc.info = copy.deepcopy(sinfo)
        sio = pio.get_IO_for_new_dataset(copy.deepcopy(sinfo), sacc)
        levels = []
        for i, sc in enumerate(sinfo["scales"]):
            X, Y, Z = sc["size"]
            vals = cex["inputs"]["levels"][i]
            if cfg["sd"] == "float32":
                lvl = real_np.array(vals, dtype=real_np.uint32).view(real_np.float32).reshape(cfg["C"], Z, Y, X)
            else:
                lvl = real_np.array(vals, dtype=real_np.uint64).astype(cfg["sd"]).reshape(cfg["C"], Z, Y, X)
            levels.append(lvl)
            for cs in sc["chunk_sizes"]:
                for x0 in range(0, X, cs[0]):
                    for y0 in range(0, Y, cs[1]):
                        for z0 in range(0, Z, cs[2]):
                            cc = (x0, min(x0 + cs[0], X), y0, min(y0 + cs[1], Y), z0, min(z0 + cs[2], Z))
                            try:
                                sio.write_chunk(lvl[:, cc[4]:cc[5], cc[2]:cc[3], cc[0]:cc[1]], sc["key"], cc)
                            except Exception as e:
                                return True, f"writing source chunk {cc} of scale {sc['key']} (chunk sizes {sc['chunk_sizes']}) raised {type(e).__name__}: {e}"
        if cfg["slay"] == "sharded":
            sacc.close()
        if not cfg["copy_info"]:
            dacc = acc_mod.get_accessor_for_url(dst_url, {"gzip": False})
            pio.get_IO_for_new_dataset(copy.deepcopy(dinfo), dacc)
        srv = None
        src_arg = src_url
        if cfg.get("remote"):
            from .c14 import _serve
            srv, _H = _serve(td)
            src_arg = f"http://127.0.0.1:{srv.server_address[1]}/src"
        try:
            cc_mod.convert_chunks(src_arg, dst_url, copy_info=cfg["copy_info"], options=_opts(cfg["dlay"]))
            _close_sharded_accessors()
        except Exception as e:
            return True, f"convert_chunks raised {type(e).__name__}: {e}"
        finally:
            if srv is not None:
                srv.shutdown()
        want_info = sinfo if cfg["copy_info"] else dinfo
        r = pio.get_IO_for_existing_dataset(acc_mod.get_accessor_for_url(dst_url, _opts(cfg["dlay"])))
        for i, sc in enumerate(want_info["scales"]):
            X, Y, Z = sc["size"]
            for cs in sc["chunk_sizes"]:
                for x0 in range(0, X, cs[0]):
                    for y0 in range(0, Y, cs[1]):
                        for z0 in range(0, Z, cs[2]):
                            cc = (x0, min(x0 + cs[0], X), y0, min(y0 + cs[1], Y), z0, min(z0 + cs[2], Z))
                            want = levels[i][:, cc[4]:cc[5], cc[2]:cc[3], cc[0]:cc[1]].astype(want_info["data_type"])
                            for own in ((False, True) if sc["encoding"] == "compressed_segmentation" else (False,)):
                                how = " (decoder of this scale alone)" * own
                                try:
                                    if own:
                                        one = load.mod("chunk_encoding").get_encoder(r.info, r.info["scales"][i])
                                        ch = one.decode(r.accessor.fetch_chunk(sc["key"], cc), (cc[1] - cc[0], cc[3] - cc[2], cc[5] - cc[4]))
                                    else:
                                        ch = r.read_chunk(sc["key"], cc)
                                except Exception as e:
                                    return True, f"destination scale {sc['key']} chunk {cc}{how}: {type(e).__name__}: {e}"
                                if ch.shape != want.shape or ch.tobytes() != real_np.ascontiguousarray(want).tobytes():
                                    return True, f"destination scale {sc['key']} chunk {cc} differs from the source{how}"
    return False, "conversion preserves all voxels on the real code"
