"""Shared set-up for whole-pipeline harnesses (C01, C06, C13, C15, C19): all repository modules
patched onto one model file system, fake nibabel images, dataset read-back helpers."""
import builtins
import json
import types

import numpy as real_np
import z3

from .. import load
from ..modelfs import Env
from ..sarray import NPProxy, SArray, SDy, SIV, SBV, SFB, elem_eq
from ..sbytes import SByteArray, SBytes, StructProxy, sym_bytes
from ..values import sym_int


class NoTqdm:
    def __init__(self, it=None, *a, **kw):
        self.it = it

    def __iter__(self):
        return iter(self.it)

    def update(self, *a):
        pass

    def close(self):
        pass

    @staticmethod
    def write(*a, **kw):
        pass


def trange(n, *a, **kw):
    return range(n)


class FakeProxy:
    """Stand-in for nibabel's ArrayProxy: raw data (SArray, Fortran-style x,y,z[,c] indexing) with
    slope/inter scaling applied on read, exactly (dyadic slope/inter) - nibabel's own arithmetic is
    outside the claim."""
    def __init__(self, raw, slope=None, inter=None):
        self.raw = raw
        self._slope = 1.0 if slope is None else slope
        self._inter = 0.0 if inter is None else inter
        self.shape = raw.shape

    slope = property(lambda s: s._slope)
    inter = property(lambda s: s._inter)

    def _scaled(self, arr):
        if self._slope == 1.0 and self._inter == 0.0:
            return arr
        f = arr.astype(real_np.float64)
        return f * real_np.float64(self._slope) + real_np.float64(self._inter)

    def __getitem__(self, k):
        r = self.raw[k]
        if isinstance(r, SArray):
            return self._scaled(r)
        # scalar element
        a = SArray.from_elems([r], self.raw.dtype, ())
        return self._scaled(a)

    def __sarray__(self):
        return self._scaled(self.raw)

    @property
    def dtype(self):
        return self._scaled(self.raw[(slice(0, 0),) * self.raw.ndim]).dtype if False else (
            self.raw.dtype if (self._slope == 1.0 and self._inter == 0.0) else real_np.dtype(real_np.float64))


class FakeImage:
    def __init__(self, raw, affine=None, slope=None, inter=None):
        self.dataobj = raw if type(raw).__name__ == "SStructArray" else FakeProxy(raw, slope, inter)
        self.affine = real_np.diag([1.0, 1.0, 1.0, 1.0]) if affine is None else affine
        shape = raw.shape
        self.header = types.SimpleNamespace(get_data_shape=lambda: shape, get_data_dtype=lambda: raw.dtype)
        self.get_data_dtype = lambda: raw.dtype           # the on-disk (unscaled) data type


class World:
    """One model file system with every repository module bound to it."""
    def __init__(self, exact_int=False):
        self.env = Env()
        env = self.env
        self.npx = NPProxy(exact_int=exact_int)
        npx = self.npx
        _orig = npx.asarray

        def asanyarray(x, dtype=None, **kw):
            if hasattr(x, "__sarray__"):
                x = x.__sarray__()
            return _orig(x, dtype, **kw)
        npx.asanyarray = asanyarray
        self.images = {}
        import nibabel as real_nib
        nib = types.SimpleNamespace(load=lambda fn: self.images[str(fn)], affines=real_nib.affines,
                                    orientations=real_nib.orientations, Nifti1Image=lambda data, affine, *a, **k: FakeImage(data, affine))
        self.nibabel = nib
        load.patch("accessor")
        load.patch("chunk_encoding", np=npx)
        load.patch("_compressed_segmentation", np=npx, struct=StructProxy(), bytearray=SByteArray)
        load.patch("data_types", np=npx)
        load.patch("downscaling", np=npx)
        load.patch("sharded_base", np=npx, zlib=env.zlib, int=sym_int)
        load.patch("file_accessor", pathlib=env.pathlib, os=env.os, gzip=env.gzip, open=env.open)
        load.preseed("sharded_file_accessor", bytearray=SByteArray, bytes=sym_bytes, open=env.open,
                     pathlib=env.pathlib, TemporaryDirectory=env.TemporaryDirectory, uuid4=env.uuid4,
                     struct=StructProxy(), np=npx, print=lambda *a, **k: None, int=sym_int)
        env.install_atexit()
        self.pio = load.patch("precomputed_io")
        self.dp = load.patch("dyadic_pyramid", np=npx, tqdm=NoTqdm)
        self.vr = load.patch("volume_reader", np=npx, nibabel=nib, tqdm=NoTqdm)
        self.acc_mod = load.mod("accessor")

    def script(self, name, **subst):
        return load.patch("scripts." + name, **subst)

    # ---- helpers
    def accessor(self, url, options=None):
        return self.acc_mod.get_accessor_for_url(url, options or {})

    def put_info(self, url, info, name="info"):
        fa = load.mod("file_accessor")
        acc = fa.FileAccessor(url, gzip=False)
        acc.store_file(name, json.dumps(info).encode(), mime_type="application/json", overwrite=True)

    def finish(self):
        """end of the simulated process: run the atexit callbacks (sharded accessors flush there)"""
        self.env.run_atexit()

    def read_scale(self, url, info, scale_index=0, options=None, cs_index=0, own_decoder=False):
        """Read every chunk of a scale with a fresh accessor; returns object array (C,Z,Y,X) of elements
        (None where a chunk is missing) and the dtype.  own_decoder: decode the fetched bytes with a decoder built
        for this scale alone from the info on disk (what a reader that opens one scale does), not through PrecomputedIO."""
        acc = self.accessor(url, options)
        io = self.pio.get_IO_for_existing_dataset(acc)
        sc = io.info["scales"][scale_index]
        one = load.mod("chunk_encoding").get_encoder(io.info, sc) if own_decoder else None
        X, Y, Z = sc["size"]
        C = io.info["num_channels"]
        cs = sc["chunk_sizes"][cs_index]
        out = real_np.empty((C, Z, Y, X), dtype=object)
        problems = []
        for x0 in range(0, X, cs[0]):
            for y0 in range(0, Y, cs[1]):
                for z0 in range(0, Z, cs[2]):
                    cc = (x0, min(x0 + cs[0], X), y0, min(y0 + cs[1], Y), z0, min(z0 + cs[2], Z))
                    try:
                        if one is not None:
                            ch = one.decode(acc.fetch_chunk(sc["key"], cc), (cc[1] - cc[0], cc[3] - cc[2], cc[5] - cc[4]))
                        else:
                            ch = io.read_chunk(sc["key"], cc)
                    except Exception as e:
                        if one is not None and type(e).__name__ in ("OutsideModel", "Inconclusive"):
                            raise
                        problems.append(f"chunk {cc}: {type(e).__name__}: {e}")
                        continue
                    want = (C, cc[5] - cc[4], cc[3] - cc[2], cc[1] - cc[0])
                    if ch.shape != want:
                        problems.append(f"chunk {cc}: shape {ch.shape} != {want}")
                        continue
                    arr = ch.a if isinstance(ch, SArray) else SArray.from_concrete(ch).a
                    out[:, cc[4]:cc[5], cc[2]:cc[3], cc[0]:cc[1]] = arr
        return out, problems, io.info


def make_info(dtype, C, size, cs, encoding="raw", block=None, sharding=None, extra_scales=(), key="full"):
    sc = dict(key=key, size=list(size), chunk_sizes=[list(cs)], encoding=encoding, resolution=[1000000, 1000000, 1000000],
              voxel_offset=[0, 0, 0])
    if encoding == "compressed_segmentation":
        sc["compressed_segmentation_block_size"] = list(block or (2, 2, 2))
    if sharding:
        m, s, p = sharding[:3]
        ienc, denc = (tuple(sharding[3:5]) + ("raw", "raw"))[:2] if len(sharding) > 3 else ("raw", "raw")
        sc["sharding"] = {"@type": "neuroglancer_uint64_sharded_v1", "minishard_bits": m, "shard_bits": s, "preshift_bits": p,
                          "hash": "identity", "minishard_index_encoding": ienc, "data_encoding": denc}
    return dict(type="image", data_type=dtype, num_channels=C, scales=[sc] + list(extra_scales))


def eq_elems(a, b):
    c = elem_eq(a, b)
    if c is None:
        return z3.BoolVal(False)
    return z3.BoolVal(c) if isinstance(c, bool) else c
