"""Shared set-up for the sharded-format harnesses (C04, C05, C14, C18)."""
import builtins
import itertools

import numpy as real_np
import z3

from .. import load
from ..modelfs import Env
from ..oracles import shard as spec
from ..sarray import NPProxy
from ..sbytes import SByteArray, SBytes, StructProxy, sym_bytes
from ..values import SBV, sym_int

BASE = "/mfs/ds"
KEY = "s0"


def setup(env):
    """Load sharded_base / sharded_file_accessor with the stand-ins bound to env."""
    npx = NPProxy()
    sb = load.patch("sharded_base", np=npx, zlib=env.zlib, int=sym_int)
    load.patch("file_accessor", pathlib=env.pathlib, os=env.os, gzip=env.gzip, open=env.open)
    sfa = load.preseed("sharded_file_accessor", bytearray=SByteArray, bytes=sym_bytes, open=env.open,
                       pathlib=env.pathlib, TemporaryDirectory=env.TemporaryDirectory, uuid4=env.uuid4,
                       struct=StructProxy(), np=npx, print=lambda *a, **k: None, int=sym_int)
    env.install_atexit()
    return sb, sfa


def make_info(grid, cs, m, s, p, idx_enc="raw", data_enc="raw", dtype="uint8"):
    size = [g * cs for g in grid]
    return dict(type="image", data_type=dtype, num_channels=1, scales=[dict(
        key=KEY, size=size, chunk_sizes=[[cs, cs, cs]], encoding="raw", resolution=[1, 1, 1], voxel_offset=[0, 0, 0],
        sharding={"@type": "neuroglancer_uint64_sharded_v1", "minishard_bits": m, "shard_bits": s, "preshift_bits": p,
                  "hash": "identity", "minishard_index_encoding": idx_enc, "data_encoding": data_enc})])


def grid_bits(grid):
    return [(g - 1).bit_length() for g in grid]


def morton_term(nbits, pos):
    code = z3.BitVecVal(0, 64)
    j = 0
    for i in range(max(nbits) if nbits else 0):
        for d in range(3):
            if i < nbits[d]:
                code = code | ((z3.LShR(pos[d], i) & 1) << j)
                j += 1
    return z3.simplify(code)


def morton_int(nbits, pos):
    code, j = 0, 0
    for i in range(max(nbits) if nbits else 0):
        for d in range(3):
            if i < nbits[d]:
                code |= ((pos[d] >> i) & 1) << j
                j += 1
    return code


def sym_ids(ctx, grid, k, prefix="p"):
    """k pairwise distinct symbolic chunk identifiers of the grid (as SBV uint64) + their positions."""
    nb = grid_bits(grid)
    ids, poss = [], []
    for i in range(k):
        pos = [z3.BitVec(f"{prefix}{i}_{d}", 64) for d in range(3)]
        for d in range(3):
            ctx.assume(z3.ULT(pos[d], grid[d]))
        ids.append(SBV(morton_term(nb, pos), real_np.uint64))
        poss.append(pos)
    for a, b in itertools.combinations(range(k), 2):
        ctx.assume(z3.Or([poss[a][d] != poss[b][d] for d in range(3)]))
    return ids, poss


def new_writer(sfa, info, **kwargs):
    acc = sfa.ShardedFileAccessor(BASE, **kwargs)
    acc.info = info
    svs, ss = acc.get_volume_shard_spec(KEY)
    scale = sfa.ShardedScale(base_dir=acc.base_dir, key=KEY, shard_spec=ss, shard_volume_spec=svs, **acc.kwargs)
    acc.shard_dict[KEY] = scale
    return acc, scale


def payload(name, n):
    return SBytes([z3.BitVec(f"{name}_{i}", 8) for i in range(n)])


def shard_files(fs):
    pre = f"{BASE}/{KEY}/"
    return {p: d for p, d in fs.files.items() if p.startswith(pre)}
