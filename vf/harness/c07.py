"""C07 - downscalers compute the documented block statistic exactly."""
import builtins
import itertools
import random

import numpy as real_np
import z3

from .. import load
from ..core import OutsideModel
from ..findings import regions_for
from ..core import zbool
from ..sarray import NPProxy, SArray, SDy, SIV, SBV, elem_eq, elem_ite

PROPERTY = "C07"
MODULES = ["downscaling", "data_types", "utils"]
FUNCTIONS = ["downscaling.AveragingDownscaler.downscale/check_factors/__init__", "downscaling.MajorityDownscaler.downscale",
             "downscaling.StridingDownscaler.downscale", "downscaling.Downscaler.check_factors", "downscaling.get_downscaler",
             "data_types.get_chunk_dtype_transformer (closure, as used by the averaging downscaler)", "utils.ceil_div"]
STUBS = ["np -> NPProxy; integer voxels are exact z3 Ints in the dtype range, float64 work values exact dyadics with a "
         "representability obligation on every operation (IEEE arithmetic is exact when the exact result is representable)",
         "np.pad(edge|constant), np.rint, np.clip, astype on those values",
         "np.unique(return_counts)+np.argmax+indexing -> fork-free contract (smallest label among the most frequent), "
         "any other use of the unique result forks on the number of distinct labels"]
ASSUMPTIONS = ["np.unique returns sorted distinct values with their counts; np.argmax returns the first maximum"]
EXPLANATION = ("Every voxel of the input chunk (and the outside value) is symbolic; the solver proves each output voxel equal "
               "to an independent formulation: exact rational block mean rounded half-to-even, mode with smallest-label "
               "tie-break stated by counting, or the block's first voxel; plus min <= result <= max of the contributors.")
BOUNDS = {
    "quick": "chunk shapes (C,Z,Y,X) with C in {1,2} and Z,Y,X in 1..3 (all 27), all factor triples {1,2}^3 (average) and "
             "triples from {1,2,3} (stride; majority with blocks of <= 9 voxels); uint8/uint16/uint32 all values (average), + uint64 (majority/stride); "
             "outside value None or symbolic integer 0..255; float32 averaging: single output voxel, all inputs in one "
             "binade (mantissas symbolic, exponent E in {-3,0,10})",
    "thorough": "Z,Y,X in 1..5 (25 sampled shapes + all <=3); majority blocks up to 18 voxels with a 120 s query budget",
}
OUTSIDE = ["uint64 averaging: the exact-mean clause above 2^53 (float64 work type cannot hold the values: documented NumPy limitation); "
           "the no-wrap / between-min-and-max clause is decided for uint64 voxels that are each below 2^50 or equal to 2^64-1",
           "float32 averaging with inputs spanning several binades (sums not exactly representable in float64)",
           "non-integer outside values"]


def configs(tier, seed):
    rnd = random.Random(seed)
    out = []
    shapes = list(itertools.product((1, 2, 3), repeat=3))
    if tier == "thorough":
        extra = [s for s in itertools.product((1, 2, 3, 4, 5), repeat=3) if max(s) > 3]
        rnd.shuffle(extra)
        shapes += extra[:25]
    dts = ["uint8", "uint16", "uint32"]
    n = 0
    for shp in shapes:
        for f in itertools.product((1, 2), repeat=3):
            n += 1
            if tier == "quick" and f == (1, 1, 1) and n % 3:
                continue
            out.append(dict(harness="average", dtype=dts[n % 3], C=1 + (n % 5 == 0), shape=list(shp), factors=list(f),
                            outside=("sym" if n % 2 else None), auto=(n % 4 == 1), order=("F" if n % 5 == 2 else None), cost=1 + shp[0] * shp[1] * shp[2] // 9))
    # uint64 at the type limit: every voxel is either below 2^50 or the type maximum; the float64 work type cannot hold
    # 2^64-1, so only the "no overflow / wrap, between min and max" clause is decided there
    for shp, f in (((1, 1, 2), (2, 1, 1)), ((1, 2, 1), (1, 2, 1)), ((1, 2, 2), (2, 2, 1)), ((2, 1, 3), (2, 1, 2)), ((1, 1, 1), (2, 2, 2))) \
            + ((((2, 2, 2), (2, 2, 2)), ((1, 3, 3), (2, 2, 1))) if tier == "thorough" else ()):
        out.append(dict(harness="average", dtype="uint64", C=1, shape=list(shp), factors=list(f), outside=None, auto=(shp[2] == 2),
                        lim=True, cost=3, wall=900))
    mf = [(1, 1, 1), (2, 2, 2), (2, 1, 1), (1, 2, 2), (3, 1, 2), (2, 3, 1), (1, 1, 3), (3, 3, 3)]
    for shp in shapes:
        for j, f in enumerate(mf):
            n += 1
            if tier == "quick" and (n % 3):
                continue
            blk = min(shp[0], f[2]) * min(shp[1], f[1]) * min(shp[2], f[0])
            if blk > (9 if tier == "quick" else 18):
                continue    # blocks of 18/27 voxels: the counting query is not decided within the quick budget
            out.append(dict(harness="majority", timeout_ms=(20000 if tier == "quick" else 120000), dtype=("uint8", "uint32", "uint64", "uint16")[n % 4], C=1, shape=list(shp),
                            factors=list(f), order=("F" if n % 5 == 2 else None), cost=2 + shp[0] * shp[1] * shp[2] // 4, wall=600))
            out.append(dict(harness="stride", dtype=("uint8", "uint32", "uint64", "float32")[n % 4], C=1 + n % 2,
                            shape=list(shp), factors=list(f), order=("F" if n % 5 == 3 else None), cost=1))
    for e in (-3, 0, 10):
        for f, shp in (((2, 2, 2), (2, 2, 2)), ((2, 1, 2), (1, 1, 1)), ((2, 2, 1), (1, 2, 1))):
            out.append(dict(harness="average_f32", e=e, shape=list(shp), factors=list(f), cost=3))
    out.append(dict(harness="factors", cost=1))
    for method, dtypes in (("average", ["uint8", "uint16", "uint8", "uint32"]), ("average", ["uint16", "uint32", "uint8"]),
                           ("majority", ["uint8", "uint64", "uint16"]), ("majority", ["uint32", "uint8", "uint32"]),
                           ("stride", ["uint8", "float32", "uint16"])):
        fs = [[2, 1, 1], [2, 1, 1], [1, 1, 1], [2, 1, 1]][:len(dtypes)]
        out.append(dict(harness="reuse", method=method, dtypes=dtypes, factors_seq=fs, cost=1))
    return out


def _mods(exact=True):
    npx = NPProxy(exact_int=exact)
    load.patch("data_types", np=npx)
    return load.patch("downscaling", np=npx)


def _in_voxels(ctx, C, shape_zyx, dtype, exact, order=None):
    arr = SArray.fresh((C,) + tuple(shape_zyx), dtype, "v", exact_int=exact)
    ctx.input("chunk", [x.__zexpr__() for x in arr.a.ravel()])
    if order == "F":          # same values, Fortran memory order (the result must not depend on the layout)
        arr = SArray(real_np.asfortranarray(arr.a), arr.dtype)
    return arr


def _block_indices(n, f):
    """source index lists per output index along one axis (without padding)"""
    return [[i for i in range(o * f, o * f + f)] for o in range(-(-n // f))]


def H_average(ctx, cfg):
    ds = _mods()
    C, (Z, Y, X), (fx, fy, fz), dtype = cfg["C"], cfg["shape"], cfg["factors"], cfg["dtype"]
    chunk = _in_voxels(ctx, C, (Z, Y, X), dtype, True, cfg.get("order"))
    info = real_np.iinfo(dtype)
    if cfg.get("lim"):
        for x in chunk.a.ravel():
            ctx.assume(z3.Or(x.v < (1 << 50), x.v == info.max))
    if cfg["outside"] == "sym":
        ov = z3.Int("outside")
        ctx.assume(z3.And(ov >= 0, ov <= 255))
        ctx.input("outside", ov)
        outside = SDy(ov, 0, 8)
    else:
        ov, outside = None, None
    if cfg.get("auto"):
        # the command-line default: method "auto" resolved from the dataset type, same options
        d = ds.get_downscaler("auto", {"type": "image", "data_type": dtype, "num_channels": C}, {"outside_value": outside})
    else:
        d = ds.get_downscaler("average", None, {"outside_value": outside})
    res = d.downscale(chunk, (fx, fy, fz))
    want_shape = (C, -(-Z // fz), -(-Y // fy), -(-X // fx))
    ctx.prove(res.shape == want_shape and real_np.dtype(res.dtype) == real_np.dtype(dtype), "shape-ceil-div-and-dtype",
              detail=f"{res.shape} {res.dtype}")
    if res.shape != want_shape:
        return
    ctx.sample(dict(shape=[C, Z, Y, X], factors=[fx, fy, fz], dtype=dtype, outside=cfg["outside"]))
    eqs, rng = [], []
    for c in range(C):
        for zo, zs in enumerate(_block_indices(Z, fz)):
            for yo, ys in enumerate(_block_indices(Y, fy)):
                for xo, xs in enumerate(_block_indices(X, fx)):
                    terms = []
                    for z in zs:
                        for y in ys:
                            for x in xs:
                                if z < Z and y < Y and x < X:
                                    terms.append(chunk.a[c, z, y, x].v)
                                elif ov is not None:
                                    terms.append(ov)
                                else:    # edge completion
                                    terms.append(chunk.a[c, min(z, Z - 1), min(y, Y - 1), min(x, X - 1)].v)
                    n = len(terms)
                    s = z3.Sum(terms)
                    q = s / n
                    r = s % n
                    mean = q + z3.If(z3.Or(2 * r > n, z3.And(2 * r == n, q % 2 == 1)), 1, 0)
                    got = res.a[c, zo, yo, xo]
                    got = got.v if isinstance(got, SIV) else z3.BV2Int(got.e, False)
                    eqs.append(got == mean)
                    lo = terms[0]
                    hi = terms[0]
                    for t in terms[1:]:
                        lo = z3.If(t < lo, t, lo)
                        hi = z3.If(t > hi, t, hi)
                    rng.append(z3.And(got >= lo, got <= hi, got >= info.min, got <= info.max))
    if not cfg.get("lim"):
        ctx.prove(z3.And(eqs), "exact-mean-rounded-half-even")
    ctx.prove(z3.And(rng), "between-min-and-max-of-contributors")


def H_average_f32(ctx, cfg):
    """float32 input, all values m*2^e with a common exponent: sums are exact in float64."""
    ds = _mods()
    (Z, Y, X), (fx, fy, fz), e = cfg["shape"], cfg["factors"], cfg["e"]
    ms = []
    a = real_np.empty((1, Z, Y, X), dtype=object)
    for idx in real_np.ndindex(1, Z, Y, X):
        m = z3.Int("m_" + "_".join(map(str, idx)))
        ctx.assume(z3.And(m > -(1 << 24), m < (1 << 24)))
        ms.append(m)
        a[idx] = SDy(m, e, 24, real_np.float32)
    ctx.input("mantissas", ms)
    chunk = SArray(a, real_np.float32)
    d = ds.get_downscaler("average", None, {})
    res = d.downscale(chunk, (fx, fy, fz))
    ok = res.shape == (1, -(-Z // fz), -(-Y // fy), -(-X // fx)) and res.dtype == real_np.dtype("float32")
    ctx.prove(ok, "shape-and-dtype", detail=f"{res.shape} {res.dtype}")
    got = res.a.reshape(-1)[0]
    # the block (edge-completed) of output voxel 0
    terms = []
    for z in range(fz):
        for y in range(fy):
            for x in range(fx):
                terms.append(a[0, min(z, Z - 1), min(y, Y - 1), min(x, X - 1)].m)
    n = len(terms)
    s = z3.Sum(terms)                      # exact mean = s / n * 2^e
    gn, gd = got.value_num_den()           # result = gn/gd
    # nearest float32 to the exact mean: |mean - got| <= ulp/2 with ulp = 2^got.e, ties to even mantissa
    k = got.e
    # mean - got = s*2^e/n - gn/gd ; scale everything by n*gd*2^-min(e,k,0)
    sc = -min(e, k, 0)
    mean_n = s * (1 << (e + sc)) * gd      # over n*gd*2^sc
    got_n = gn * n * (1 << sc)
    diff = mean_n - got_n
    ad = z3.If(diff >= 0, diff, -diff)
    ulp_n = (1 << (k + sc)) * n * gd       # ulp over the same denominator
    am = z3.If(got.m >= 0, got.m, -got.m)
    ctx.sample(dict(float32_exponent=e, shape=cfg["shape"], factors=cfg["factors"]))
    ctx.prove(z3.And(am <= (1 << 24), 2 * ad <= ulp_n, z3.Implies(2 * ad == ulp_n, got.m % 2 == 0),
                     z3.Or(ad == 0, am >= (1 << 23))), "float32-mean-correctly-rounded")


def _vox(x):
    return x.v if isinstance(x, SIV) else x.e


def H_majority(ctx, cfg):
    exact = cfg.get("exact", True)
    ds = _mods(exact=exact)
    C, (Z, Y, X), (fx, fy, fz), dtype = cfg["C"], cfg["shape"], cfg["factors"], cfg["dtype"]
    chunk = _in_voxels(ctx, C, (Z, Y, X), dtype, exact, cfg.get("order"))
    d = ds.get_downscaler("majority", None, {})
    res = d.downscale(chunk, (fx, fy, fz))
    want_shape = (C, -(-Z // fz), -(-Y // fy), -(-X // fx))
    ctx.prove(res.shape == want_shape and real_np.dtype(res.dtype) == real_np.dtype(dtype), "shape-ceil-div-and-dtype",
              detail=f"{res.shape} {res.dtype}")
    if res.shape != want_shape:
        return
    ctx.sample(dict(shape=[C, Z, Y, X], factors=[fx, fy, fz], dtype=dtype))
    le = (lambda a, b: a <= b) if exact else z3.ULE
    for c in range(C):
        for zo, zs in enumerate(_block_indices(Z, fz)):
            for yo, ys in enumerate(_block_indices(Y, fy)):
                for xo, xs in enumerate(_block_indices(X, fx)):
                    vals = [_vox(chunk.a[c, z, y, x]) for z in zs for y in ys for x in xs if z < Z and y < Y and x < X]
                    r = _vox(res.a[c, zo, yo, xo])

                    def count(t):
                        return z3.Sum([z3.If(v == t, 1, 0) for v in vals])
                    cr = count(r)
                    conds = [z3.Or([r == v for v in vals])]
                    for v in vals:
                        cv = count(v)
                        conds.append(cr >= cv)
                        conds.append(z3.Implies(cv == cr, le(r, v)))
                    ctx.prove(z3.And(conds), "most-frequent-label-smallest-on-ties")


def H_stride(ctx, cfg):
    ds = _mods(exact=False)
    C, (Z, Y, X), (fx, fy, fz), dtype = cfg["C"], cfg["shape"], cfg["factors"], cfg["dtype"]
    chunk = _in_voxels(ctx, C, (Z, Y, X), dtype, False, cfg.get("order"))
    d = ds.get_downscaler("stride", None, {})
    res = d.downscale(chunk, (fx, fy, fz))
    want_shape = (C, -(-Z // fz), -(-Y // fy), -(-X // fx))
    ctx.prove(res.shape == want_shape and real_np.dtype(res.dtype) == real_np.dtype(dtype), "shape-ceil-div-and-dtype",
              detail=f"{res.shape} {res.dtype}")
    if res.shape != want_shape:
        return
    ctx.sample(dict(shape=[C, Z, Y, X], factors=[fx, fy, fz], dtype=dtype))
    conds = []
    for c in range(C):
        for zo in range(want_shape[1]):
            for yo in range(want_shape[2]):
                for xo in range(want_shape[3]):
                    c_ = elem_eq(res.a[c, zo, yo, xo], chunk.a[c, zo * fz, yo * fy, xo * fx])
                    conds.append(z3.BoolVal(c_) if isinstance(c_, bool) else c_)
    ctx.prove(z3.And(conds), "first-voxel-of-each-block")


def H_reuse(ctx, cfg):
    """One downscaler object serves chunks of different data types, shapes and factors in sequence (as compute-scales and
    library callers do): every call must answer as a fresh object would - nothing carries over from earlier calls."""
    method = cfg["method"]
    ds = _mods(exact=(method == "average"))
    d = ds.get_downscaler(method, None, {})
    allv = []
    for k, (dtype, f) in enumerate(zip(cfg["dtypes"], cfg["factors_seq"])):
        exact = method == "average" and real_np.dtype(dtype).kind in "ui"
        n = f[0]
        chunk = SArray.fresh((1, 1, 1, n), dtype, f"v{k}_", exact_int=exact)
        allv.append([x.__zexpr__() for x in chunk.a.ravel()])
        ctx.input("chunks", allv)
        res = d.downscale(chunk, tuple(f))
        ok = res.shape == (1, 1, 1, 1) and real_np.dtype(res.dtype) == real_np.dtype(dtype)
        ctx.prove(ok, f"call-{k}-shape-and-dtype", detail=f"{res.shape} {res.dtype} for input {dtype}")
        if not ok:
            continue
        got = res.a[0, 0, 0, 0]
        vals = [chunk.a[0, 0, 0, i] for i in range(n)]
        if method == "stride":
            c_ = elem_eq(got, vals[0])
            ctx.prove(z3.BoolVal(c_) if isinstance(c_, bool) else c_, f"call-{k}-first-voxel")
        elif method == "majority":
            # n in {1, 2}: the label itself, or the smaller of two different labels (tie -> smallest)
            want = vals[0] if n == 1 else elem_ite(zbool(vals[1] < vals[0]), vals[1], vals[0])
            c_ = elem_eq(got, want)
            ctx.prove(z3.BoolVal(c_) if isinstance(c_, bool) else c_, f"call-{k}-majority-smallest-on-ties")
        else:
            if not exact:
                continue                     # float32 means are covered by average_f32; here only the data type is at stake
            ts = [v.v for v in vals]
            sm = z3.Sum(ts) if n > 1 else ts[0]
            q, r = sm / n, sm % n
            mean = q + z3.If(z3.Or(2 * r > n, z3.And(2 * r == n, q % 2 == 1)), 1, 0)
            g = got.v if isinstance(got, SIV) else z3.BV2Int(got.e, False)
            ctx.prove(g == mean, f"call-{k}-exact-mean-rounded-half-even")
    ctx.sample(dict(method=method, dtypes=cfg["dtypes"]))


def H_factors(ctx, cfg):
    """Unsupported factor triples must raise NotImplementedError (concrete enumeration, no solver content)."""
    ds = _mods(exact=False)
    chunk = SArray.fresh((1, 2, 2, 2), "uint8", "v")
    bad = []
    for name, fs in (("average", [(3, 1, 1), (1, 4, 2), (0, 1, 1), (2, 2), (2, 2, 2, 2)]),
                     ("majority", [(0, 1, 1), (1, -1, 1), (1.5, 1, 1), (1, 1)]),
                     ("stride", [(0, 1, 1), (1, 1, -2), (2.0, 1, 1), (1, 1, 1, 1)])):
        d = ds.get_downscaler(name, None, {})
        for f in fs:
            try:
                d.downscale(chunk, f)
            except NotImplementedError:
                continue
            except Exception as e:
                bad.append((name, f, type(e).__name__))
                continue
            bad.append((name, f, "accepted"))
    ctx.input("bad", [str(b) for b in bad])
    ctx.sample("enumerated unsupported factor triples")
    ctx.prove(not bad, "unsupported-factors-raise-NotImplementedError", detail=str(bad))


# --------------------------------------------------------------------- replay

def _replay_reuse(cfg, inp):
    ds = load.mod("downscaling")
    method = cfg["method"]
    d = ds.get_downscaler(method, None, {})
    for k, (dtype, f) in enumerate(zip(cfg["dtypes"], cfg["factors_seq"])):
        raw = inp["chunks"][k] if k < len(inp.get("chunks", [])) else [0] * f[0]
        if dtype == "float32":
            chunk = real_np.array(raw, dtype=real_np.uint32).view(real_np.float32).reshape(1, 1, 1, f[0])
        else:
            chunk = real_np.array(raw, dtype=real_np.uint64).astype(dtype).reshape(1, 1, 1, f[0])
        fresh = ds.get_downscaler(method, None, {}).downscale(chunk.copy(), tuple(f))
        try:
            res = d.downscale(chunk.copy(), tuple(f))
        except Exception as e:
            return True, f"call {k} ({dtype}) on a reused {method} downscaler raised {type(e).__name__}: {e}"
        if res.dtype != chunk.dtype or res.shape != (1, 1, 1, 1):
            return True, f"call {k}: a reused {method} downscaler returns {res.dtype}{res.shape} for a {dtype} chunk (earlier calls: {cfg['dtypes'][:k]})"
        if res.tobytes() != fresh.tobytes():
            return True, f"call {k}: reused {method} downscaler gives {res.ravel().tolist()}, a fresh one {fresh.ravel().tolist()} for {chunk.ravel().tolist()}"
    return False, "a reused downscaler answers like a fresh one on the real code"


def replay(cfg, cex):
    ds = load.mod("downscaling")
    h = cfg["harness"]
    inp = cex["inputs"]
    if h == "reuse":
        return _replay_reuse(cfg, inp)
    if h == "factors":
        return bool(inp["bad"]), str(inp["bad"])
    from fractions import Fraction
    (Z, Y, X), (fx, fy, fz) = cfg["shape"], cfg["factors"]
    if h == "average_f32":
        e = cfg["e"]
        chunk = real_np.array([float(Fraction(m) * Fraction(2) ** e) for m in inp["mantissas"]], dtype=real_np.float32).reshape(1, Z, Y, X)
        res = ds.get_downscaler("average", None, {}).downscale(chunk, (fx, fy, fz))
        blk = [Fraction(float(chunk[0, min(z, Z - 1), min(y, Y - 1), min(x, X - 1)])) for z in range(fz) for y in range(fy) for x in range(fx)]
        mean = sum(blk) / len(blk)
        want = real_np.float32(float(mean)) if float(mean) == mean else None
        got = res.ravel()[0]
        if want is None:
            # double rounding check through exact rationals
            want = real_np.float32(mean.numerator / mean.denominator)
        return bool(got != want) or res.dtype != real_np.float32, f"float32 mean of {blk} = {got}, correctly rounded {want}"
    C, dtype = cfg["C"], cfg["dtype"]
    if dtype == "float32":
        chunk = real_np.array(inp["chunk"], dtype=real_np.uint32).view(real_np.float32).reshape(C, Z, Y, X)
    else:
        chunk = real_np.array(inp["chunk"], dtype=real_np.uint64).astype(dtype).reshape(C, Z, Y, X)
    opts = {}
    if h == "average" and cfg["outside"] == "sym":
        opts["outside_value"] = float(inp["outside"])
    d = ds.get_downscaler("auto", {"type": "image"}, opts) if (h == "average" and cfg.get("auto")) else ds.get_downscaler(h, None, opts)
    try:
        res = d.downscale(real_np.asfortranarray(chunk) if cfg.get("order") == "F" else chunk.copy(), (fx, fy, fz))
    except Exception as e:
        return True, f"{h} downscaler raised {type(e).__name__}: {e}"
    want_shape = (C, -(-Z // fz), -(-Y // fy), -(-X // fx))
    if res.shape != want_shape or res.dtype != chunk.dtype:
        return True, f"shape {res.shape} dtype {res.dtype}, expected {want_shape} {chunk.dtype}"
    for c in range(C):
        for zo in range(want_shape[1]):
            for yo in range(want_shape[2]):
                for xo in range(want_shape[3]):
                    if h == "stride":
                        want = chunk[c, zo * fz, yo * fy, xo * fx]
                        if res[c, zo, yo, xo].tobytes() != want.tobytes():
                            return True, f"stride: out[{c},{zo},{yo},{xo}]={res[c, zo, yo, xo]} expected {want}"
                        continue
                    blk = []
                    for z in range(zo * fz, zo * fz + fz):
                        for y in range(yo * fy, yo * fy + fy):
                            for x in range(xo * fx, xo * fx + fx):
                                if z < Z and y < Y and x < X:
                                    blk.append(builtins.int(chunk[c, z, y, x]))
                                elif h == "average":
                                    blk.append(builtins.int(inp["outside"]) if cfg["outside"] == "sym"
                                               else builtins.int(chunk[c, min(z, Z - 1), min(y, Y - 1), min(x, X - 1)]))
                    got = builtins.int(res[c, zo, yo, xo])
                    if h == "average" and cfg.get("lim"):
                        if not min(blk) <= got <= max(blk):
                            return True, f"average: block {blk} -> {got}, outside the range of its contributors"
                        continue
                    if h == "average":
                        m = Fraction(sum(blk), len(blk))
                        fl = m.numerator // m.denominator
                        fr = m - fl
                        want = fl + (1 if fr > Fraction(1, 2) or (fr == Fraction(1, 2) and fl % 2) else 0)
                    else:
                        best = max(blk.count(v) for v in blk)
                        want = min(v for v in blk if blk.count(v) == best)
                    if got != want:
                        return True, f"{h}: block {blk} -> {got}, expected {want} (shape {chunk.shape}, factors {cfg['factors']})"
    return False, "downscaler output matches the reference on the real code"
