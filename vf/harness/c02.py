"""C02 - compressed_segmentation encoder output conforms to the format (spec decoder + own decoder)."""
import builtins
import itertools
import random

import numpy as real_np
import z3

from .. import load
from ..findings import regions_for
from ..oracles import cseg as spec
from ..sarray import NPProxy, SArray
from ..sbytes import SByteArray, SBytes, StructProxy
from ..values import SBV

PROPERTY = "C02"
MODULES = ["_compressed_segmentation", "chunk_encoding", "utils"]
FUNCTIONS = ["chunk_encoding.CompressedSegmentationEncoder.encode/decode",
             "_compressed_segmentation.encode_chunk", "_compressed_segmentation._encode_channel",
             "_compressed_segmentation.pad_block", "_compressed_segmentation.number_of_encoding_bits",
             "_compressed_segmentation._pack_encoded_values", "_compressed_segmentation.decode_chunk_into",
             "_compressed_segmentation._decode_channel_into", "_compressed_segmentation._unpack_encoded_values",
             "utils.ceil_div"]
STUBS = ["np -> NPProxy (np.empty = poison symbols; frombuffer/asarray on symbolic buffers)",
         "np.unique -> contract stub (sorted distinct values, inverse, counts), number of distinct labels forked",
         "np.argmax/np.pad/np.array_equal/bitwise ufuncs on z3 terms",
         "struct -> StructProxy; bytearray -> SByteArray"]
ASSUMPTIONS = ["np.unique returns the sorted distinct values with matching inverse/counts (contract)",
               "array layout operations are NumPy's own (run on object arrays)"]
EXPLANATION = ("All label values are symbolic 32/64-bit terms; each path fixes the number of distinct labels per "
               "block and the lookup-table sharing pattern; the solver proves that a decoder written from the format "
               "text and the package's decoder both return the input for every label assignment on the path.")
BOUNDS = {
    "quick": "uint32/uint64, 1-2 channels, block sizes from {1,2,3}^3 incl. non-cubic, chunk shapes smaller than / equal "
             "to / not divisible by the block; <= 2 blocks per channel and <= 8 voxels per block (bit widths 0,1,2,4), "
             "all label values incl. > 2^32 and > 2^53 (64-bit symbols); bit width 8 / 16 and the 4|8 and 8|16 width boundaries: "
             "27-, 280-, 294- and 343-voxel blocks whose labels are fixed distinct values except 2 symbolic ones",
    "thorough": "as quick plus <= 4 blocks / <= 16 voxels per configuration, one 18..27-voxel block (width 8) with the "
                "number of distinct labels forced >= 17, more shapes, 3 symbolic labels in the 343-voxel block, a two-block chunk "
                "mixing widths, and bit width 32 (68921-voxel block, one symbolic label)",
}
OUTSIDE = ["bit width 32 in the quick tier (thorough: one 68921-voxel block with a single symbolic label)", "bit widths 16/32 with more than 3 symbolic labels per block "
           "(the other labels of those 280-480-voxel blocks are fixed, pairwise distinct values; the symbolic labels range over a window "
           "holding 4 of the fixed labels: equal to one of them or in one of the 5 gaps)", "chunks with more than 4 blocks"]


def _cfg(dtype, C, shape, block, **kw):
    d = dict(harness="roundtrip", dtype=dtype, C=C, shape=list(shape), block=list(block), cost=1)
    d.update(kw)
    return d


def configs(tier, seed):
    out = []
    rnd = random.Random(seed)
    # (Z, Y, X) chunk shapes; block (bx, by, bz)
    base = [
        ("uint64", 1, (2, 2, 2), (2, 2, 2)),
        ("uint32", 1, (2, 2, 2), (2, 2, 2)),
        ("uint64", 1, (1, 1, 1), (1, 1, 1)),
        ("uint32", 1, (1, 2, 3), (2, 2, 2)),      # chunk not divisible by block (2 blocks, padded)
        ("uint64", 1, (1, 1, 3), (2, 2, 2)),
        ("uint64", 1, (1, 1, 1), (2, 2, 2)),      # chunk smaller than the block
        ("uint32", 2, (1, 2, 2), (2, 2, 1)),      # two channels, non-cubic block
        ("uint64", 2, (1, 1, 2), (2, 1, 1)),
        ("uint64", 1, (2, 1, 2), (2, 1, 1)),      # non-cubic, two blocks along z
        ("uint32", 1, (1, 2, 2), (1, 2, 1)),
        ("uint32", 1, (1, 2, 2), (2, 1, 1)),      # two blocks along y with bx != by
        ("uint64", 1, (2, 2, 1), (1, 2, 1)),      # two blocks along z with by != bz
        ("uint64", 1, (1, 3, 2), (2, 3, 1)),      # 6-voxel non-cubic block
        ("uint32", 1, (2, 1, 4), (4, 1, 2)),      # 8-voxel non-cubic block
        ("uint64", 1, (3, 1, 1), (1, 1, 2)),      # padded in z
        ("uint32", 1, (1, 1, 4), (2, 1, 1)),      # two blocks sharing tables
        ("uint64", 1, (1, 3, 3), (3, 3, 1)),      # 9 voxels -> up to width 4
        ("uint32", 1, (2, 2, 1), (2, 2, 2)),      # chunk thinner than the block along x (several labels in the partial block)
        ("uint64", 1, (1, 2, 2), (2, 2, 1), dict(in_dtype="uint32")),      # labels handed over as uint32 / uint8 / uint16 arrays
        ("uint64", 2, (1, 1, 2), (2, 1, 1), dict(in_dtype="uint8")),
        ("uint32", 1, (1, 2, 2), (2, 2, 2), dict(in_dtype="uint16")),
        ("uint64", 1, (2, 1, 2), (2, 2, 2)),      # ... along y
        ("uint32", 1, (1, 2, 1), (2, 4, 1)),      # ... along x and y, non-cubic block
        ("uint64", 1, (2, 2, 2), (2, 2, 2), dict(order="F")),       # chunk handed over in Fortran memory order
        ("uint32", 2, (1, 2, 2), (2, 2, 1), dict(order="F")),
        ("uint32", 1, (2, 1, 4), (4, 1, 2), dict(order="view")),    # non-contiguous view (every other voxel of a larger buffer)
    ]
    for b in base:
        extra = b[4] if len(b) > 4 else {}
        out.append(_cfg(*b[:4], cost=3 if b[2][0] * b[2][1] * b[2][2] >= 8 else 1, **extra))
    if tier == "thorough":
        more = [
            ("uint64", 1, (2, 2, 4), (2, 2, 2)), ("uint32", 1, (2, 4, 2), (2, 2, 2)),
            ("uint32", 2, (2, 2, 2), (2, 2, 2)), ("uint64", 1, (3, 3, 1), (2, 2, 2)),
            ("uint64", 1, (2, 3, 2), (3, 2, 1)), ("uint32", 1, (1, 4, 4), (2, 2, 1)),
            ("uint64", 3, (1, 1, 2), (1, 1, 1)), ("uint32", 1, (2, 2, 3), (3, 2, 2)),
            ("uint64", 1, (1, 2, 5), (3, 1, 1)),
        ]
        for b in more:
            out.append(_cfg(*b, cost=8, wall=2400, max_paths=20000))
        out.append(_cfg("uint64", 1, (2, 3, 3), (3, 3, 2), min_distinct=17, cost=10, wall=2400))
        out.append(_cfg("uint32", 1, (3, 3, 3), (3, 3, 3), min_distinct=26, cost=10, wall=2400))
    # bit width 16: a 343-voxel block with 340 fixed distinct labels and 3 symbolic ones
    out.append(_cfg("uint32", 1, (7, 7, 7), (7, 7, 7), concrete=341 if tier == "quick" else 340, cost=10, wall=2400, max_paths=2000))
    out.append(_cfg("uint64", 1, (5, 8, 7), (7, 8, 5), concrete=279, cost=6, wall=2400, max_paths=2000))     # 280 voxels, non-cubic block
    # width boundaries: 255 / 256 fixed distinct labels plus two symbolic ones -> 255..258 table entries (8 <-> 16 bits);
    # 15 / 16 fixed ones in a 27-voxel block -> 4 <-> 8 bits
    out.append(_cfg("uint32", 1, (6, 7, 7), (7, 7, 6), concrete=292, distinct=256, cost=6, wall=2400, max_paths=2000))
    out.append(_cfg("uint64", 1, (6, 7, 7), (7, 7, 6), concrete=292, distinct=255, cost=6, wall=2400, max_paths=2000))
    out.append(_cfg("uint32", 1, (3, 3, 3), (3, 3, 3), concrete=25, distinct=16, cost=3, wall=2400, max_paths=2000))
    out.append(_cfg("uint64", 1, (3, 3, 3), (3, 3, 3), concrete=25, distinct=15, cost=3, wall=2400, max_paths=2000))
    if tier == "thorough":
        # bit width 32: one 41x41x41 block (68921 voxels) with 68920 fixed distinct labels and one symbolic label (~16 min, 2 GB)
        out.append(_cfg("uint32", 1, (41, 41, 41), (41, 41, 41), concrete=68920, cost=60, wall=3000, max_paths=50, timeout_ms=300000))
        # two 8x8x5 blocks in one chunk (second one padded): widths 16 and 8 side by side
        out.append(_cfg("uint32", 1, (5, 8, 12), (8, 8, 5), concrete=478, cost=10, wall=2400, max_paths=2000))
    return out


def _patched():
    npx = NPProxy()
    ce = load.patch("chunk_encoding", np=npx)
    cs = load.patch("_compressed_segmentation", np=npx, struct=StructProxy(), bytearray=SByteArray)
    return ce, cs


def _layout(a, order):
    """the same values in another memory layout (the encoder must not depend on it)"""
    if order == "F":
        return real_np.asfortranarray(a)
    if order == "view":
        big = real_np.empty(a.shape[:-1] + (2 * a.shape[-1],), dtype=a.dtype)
        big[...] = a.ravel()[0]
        big[..., ::2] = a
        return big[..., ::2]
    return a


def _prove_all(ctx, eqs, label):
    """one obligation for small chunks, one per voxel for large ones (a conjunction of hundreds of table look-ups is
    much harder for the solver than the look-ups one by one)"""
    if len(eqs) <= 64:
        ctx.prove(z3.And(eqs), label)
    else:
        for e in eqs:
            ctx.prove(e, label)


def H_roundtrip(ctx, cfg):
    ce, cs = _patched()
    dtype, C = cfg["dtype"], cfg["C"]
    Z, Y, X = cfg["shape"]
    block = cfg["block"]
    # the labels may be handed over in a narrower integer type that casts safely to the dataset's type
    chunk = SArray.fresh((C, Z, Y, X), cfg.get("in_dtype", dtype), "v")
    if cfg.get("concrete"):
        # all but a few voxels carry fixed pairwise distinct labels (forces the wide bit widths); the others stay symbolic
        from ..values import SBV
        flat = chunk.a.reshape(-1)
        n = len(flat)
        step = n // (n - cfg["concrete"] + 1)
        sym_pos = {step * (j + 1) - 1 for j in range(n - cfg["concrete"])}
        top = 2 ** (8 * real_np.dtype(dtype).itemsize)
        nd = cfg.get("distinct", n)         # number of distinct fixed labels (they repeat cyclically beyond that)
        fpos = [j for j in range(n) if j not in sym_pos]
        fixed = {j: ((i % nd) * 2654435761 + ((i % nd) << 40)) % top for i, j in enumerate(fpos)}
        for j, v in fixed.items():
            flat[j] = SBV.const(v, dtype)
        # the symbolic labels range over a window holding 4 of the fixed labels: equal to one of them or in one of the
        # 5 gaps (the table layout is decided per case, the label stays symbolic)
        srt = sorted(set(fixed.values()))
        mid = len(srt) // 2
        for j in sym_pos:
            ctx.assume(z3.And(z3.UGT(flat[j].e, srt[mid - 3]), z3.ULT(flat[j].e, srt[mid + 2])))
    ctx.input("chunk", [x.e for x in chunk.a.ravel()])
    chunk = SArray(_layout(chunk.a, cfg.get("order")), chunk.dtype)
    if cfg.get("min_distinct"):
        vals = [x.e for x in chunk.a.ravel()]
        k = cfg["min_distinct"]
        ctx.assume(z3.Distinct(*vals[:k]))
    for fid, expr in regions_for(PROPERTY, "roundtrip"):
        ctx.region(fid, builtins.bool(eval(expr, {"block": block, "shape": [Z, Y, X], "C": C, "dtype": dtype})))
    enc = ce.CompressedSegmentationEncoder(dtype, C, block)
    buf = enc.encode(chunk)
    assert isinstance(buf, SBytes), type(buf)
    itemsize = real_np.dtype(dtype).itemsize
    ctx.sample(dict(cfg={k: cfg[k] for k in ("dtype", "C", "shape", "block")}, encoded_len=len(buf)))
    ctx.prove(len(buf) % 4 == 0, "file-length-multiple-of-4")
    try:
        dec, conds = spec.spec_decode(buf, C, (Z, Y, X), block, itemsize)
    except spec.SpecError as e:
        ctx.fail("spec-decoder-rejects-file", detail=str(e))
        return
    if conds:
        ctx.prove(z3.And(conds), "table-indices-inside-table")
    wbits = 8 * itemsize

    def lab(e):          # the label as a value of the dataset's type
        return z3.ZeroExt(wbits - e.size(), e) if e.size() < wbits else e
    eqs = [dec[c][z][y][x] == lab(chunk.a[c, z, y, x].e)
           for c in range(C) for z in range(Z) for y in range(Y) for x in range(X)]
    _prove_all(ctx, eqs, "spec-decoder-recovers-labels")
    own = enc.decode(SBytes(buf), (X, Y, Z))
    ctx.prove(own.shape == (C, Z, Y, X) and own.dtype == real_np.dtype(dtype), "own-decoder-shape-dtype")
    eqs = [own.a[idx].e == lab(chunk.a[idx].e) for idx in real_np.ndindex(C, Z, Y, X)]
    _prove_all(ctx, eqs, "own-decoder-recovers-labels")


# --------------------------------------------------------------------- replay

def _ref_decode(buf, C, shape, block, dtype):
    """Concrete spec decoder for the replay (same text, plain ints)."""
    from ..sbytes import SBytes as SB
    dec, conds = spec.spec_decode(SB(bytes(buf)), C, shape, block, real_np.dtype(dtype).itemsize)
    Z, Y, X = shape
    arr = real_np.zeros((C, Z, Y, X), dtype=dtype)
    for c in range(C):
        for z in range(Z):
            for y in range(Y):
                for x in range(X):
                    arr[c, z, y, x] = z3.simplify(dec[c][z][y][x]).as_long()
    for cnd in conds:
        if not z3.is_true(z3.simplify(cnd)):
            raise spec.SpecError("table index outside table")
    return arr


def replay(cfg, cex):
    ce = load.mod("chunk_encoding")
    dtype, C = cfg["dtype"], cfg["C"]
    Z, Y, X = cfg["shape"]
    block = cfg["block"]
    chunk = real_np.array(cex["inputs"]["chunk"], dtype=real_np.uint64).astype(cfg.get("in_dtype", dtype)).reshape(C, Z, Y, X)
    chunk = _layout(chunk, cfg.get("order"))
    enc = ce.CompressedSegmentationEncoder(dtype, C, block)
    try:
        buf = enc.encode(chunk)
    except Exception as e:
        return True, f"encoder raised {type(e).__name__}: {e}"
    if len(buf) % 4:
        return True, "file length not a multiple of 4"
    try:
        ref = _ref_decode(buf, C, (Z, Y, X), block, dtype)
    except spec.SpecError as e:
        return True, f"spec decoder rejects the file: {e}"
    if not real_np.array_equal(ref, chunk):
        return True, f"spec decoder returns {ref.ravel().tolist()} for {chunk.ravel().tolist()}"
    try:
        own = enc.decode(bytes(buf), (X, Y, Z))
    except Exception as e:
        return True, f"own decoder raised {type(e).__name__}: {e}"
    if own.shape != chunk.shape or own.dtype != real_np.dtype(dtype) or not real_np.array_equal(own, chunk):
        return True, f"own decoder returns {own.ravel().tolist()} for {chunk.ravel().tolist()}"
    return False, "round trip correct on the real code"
