"""C02 - compressed_segmentation encoder output conforms to the format (spec decoder + own decoder)."""
import builtins
import itertools
import random

import numpy as real_np
import z3

from .. import load
from ..findings import regions_for
from ..oracles import cseg as spec
from ..sarray import NPProxy, SArray
from ..sbytes import SByteArray, SBytes, StructProxy
from ..values import SBV

PROPERTY = "C02"
MODULES = ["_compressed_segmentation", "chunk_encoding", "utils"]
FUNCTIONS = ["chunk_encoding.CompressedSegmentationEncoder.encode/decode",
             "_compressed_segmentation.encode_chunk", "_compressed_segmentation._encode_channel",
             "_compressed_segmentation.pad_block", "_compressed_segmentation.number_of_encoding_bits",
             "_compressed_segmentation._pack_encoded_values", "_compressed_segmentation.decode_chunk_into",
             "_compressed_segmentation._decode_channel_into", "_compressed_segmentation._unpack_encoded_values",
             "utils.ceil_div"]
STUBS = ["np -> NPProxy (np.empty = poison symbols; frombuffer/asarray on symbolic buffers)",
         "np.unique -> contract stub (sorted distinct values, inverse, counts), number of distinct labels forked",
         "np.argmax/np.pad/np.array_equal/bitwise ufuncs on z3 terms",
         "struct -> StructProxy; bytearray -> SByteArray"]
ASSUMPTIONS = ["np.unique returns the sorted distinct values with matching inverse/counts (contract)",
               "array layout operations are NumPy's own (run on object arrays)"]
EXPLANATION = ("All label values are symbolic 32/64-bit terms; each path fixes the number of distinct labels per "
               "block and the lookup-table sharing pattern; the solver proves that a decoder written from the format "
               "text and the package's decoder both return the input for every label assignment on the path.")
BOUNDS = {
    "quick": "uint32/uint64, 1-2 channels, block sizes from {1,2,3}^3 incl. non-cubic, chunk shapes smaller than / equal "
             "to / not divisible by the block; <= 2 blocks per channel and <= 8 voxels per block (bit widths 0,1,2,4), "
             "all label values incl. > 2^32 and > 2^53 (64-bit symbols)",
    "thorough": "as quick plus <= 4 blocks / <= 16 voxels per configuration, one 18..27-voxel block (width 8) with the "
                "number of distinct labels forced >= 17, and more shapes",
}
OUTSIDE = ["bit widths 16 and 32 (blocks with > 256 distinct labels)", "chunks with more than 4 blocks"]


def _cfg(dtype, C, shape, block, **kw):
    d = dict(harness="roundtrip", dtype=dtype, C=C, shape=list(shape), block=list(block), cost=1)
    d.update(kw)
    return d


def configs(tier, seed):
    out = []
    rnd = random.Random(seed)
    # (Z, Y, X) chunk shapes; block (bx, by, bz)
    base = [
        ("uint64", 1, (2, 2, 2), (2, 2, 2)),
        ("uint32", 1, (2, 2, 2), (2, 2, 2)),
        ("uint64", 1, (1, 1, 1), (1, 1, 1)),
        ("uint32", 1, (1, 2, 3), (2, 2, 2)),      # chunk not divisible by block (2 blocks, padded)
        ("uint64", 1, (1, 1, 3), (2, 2, 2)),
        ("uint64", 1, (1, 1, 1), (2, 2, 2)),      # chunk smaller than the block
        ("uint32", 2, (1, 2, 2), (2, 2, 1)),      # two channels, non-cubic block
        ("uint64", 2, (1, 1, 2), (2, 1, 1)),
        ("uint64", 1, (2, 1, 2), (2, 1, 1)),      # non-cubic, two blocks along z
        ("uint32", 1, (1, 2, 2), (1, 2, 1)),
        ("uint64", 1, (1, 3, 2), (2, 3, 1)),      # 6-voxel non-cubic block
        ("uint32", 1, (2, 1, 4), (4, 1, 2)),      # 8-voxel non-cubic block
        ("uint64", 1, (3, 1, 1), (1, 1, 2)),      # padded in z
        ("uint32", 1, (1, 1, 4), (2, 1, 1)),      # two blocks sharing tables
        ("uint64", 1, (1, 3, 3), (3, 3, 1)),      # 9 voxels -> up to width 4
        ("uint32", 1, (2, 2, 1), (2, 2, 2)),      # chunk thinner than the block along x (several labels in the partial block)
        ("uint64", 1, (2, 1, 2), (2, 2, 2)),      # ... along y
        ("uint32", 1, (1, 2, 1), (2, 4, 1)),      # ... along x and y, non-cubic block
    ]
    for b in base:
        out.append(_cfg(*b, cost=3 if b[2][0] * b[2][1] * b[2][2] >= 8 else 1))
    if tier == "thorough":
        more = [
            ("uint64", 1, (2, 2, 4), (2, 2, 2)), ("uint32", 1, (2, 4, 2), (2, 2, 2)),
            ("uint32", 2, (2, 2, 2), (2, 2, 2)), ("uint64", 1, (3, 3, 1), (2, 2, 2)),
            ("uint64", 1, (2, 3, 2), (3, 2, 1)), ("uint32", 1, (1, 4, 4), (2, 2, 1)),
            ("uint64", 3, (1, 1, 2), (1, 1, 1)), ("uint32", 1, (2, 2, 3), (3, 2, 2)),
            ("uint64", 1, (1, 2, 5), (3, 1, 1)),
        ]
        for b in more:
            out.append(_cfg(*b, cost=8, wall=2400, max_paths=20000))
        out.append(_cfg("uint64", 1, (2, 3, 3), (3, 3, 2), min_distinct=17, cost=10, wall=2400))
        out.append(_cfg("uint32", 1, (3, 3, 3), (3, 3, 3), min_distinct=26, cost=10, wall=2400))
    return out


def _patched():
    npx = NPProxy()
    ce = load.patch("chunk_encoding", np=npx)
    cs = load.patch("_compressed_segmentation", np=npx, struct=StructProxy(), bytearray=SByteArray)
    return ce, cs


def H_roundtrip(ctx, cfg):
    ce, cs = _patched()
    dtype, C = cfg["dtype"], cfg["C"]
    Z, Y, X = cfg["shape"]
    block = cfg["block"]
    chunk = SArray.fresh((C, Z, Y, X), dtype, "v")
    ctx.input("chunk", [x.e for x in chunk.a.ravel()])
    if cfg.get("min_distinct"):
        vals = [x.e for x in chunk.a.ravel()]
        k = cfg["min_distinct"]
        ctx.assume(z3.Distinct(*vals[:k]))
    for fid, expr in regions_for(PROPERTY, "roundtrip"):
        ctx.region(fid, builtins.bool(eval(expr, {"block": block, "shape": [Z, Y, X], "C": C, "dtype": dtype})))
    enc = ce.CompressedSegmentationEncoder(dtype, C, block)
    buf = enc.encode(chunk)
    assert isinstance(buf, SBytes), type(buf)
    itemsize = real_np.dtype(dtype).itemsize
    ctx.sample(dict(cfg={k: cfg[k] for k in ("dtype", "C", "shape", "block")}, encoded_len=len(buf)))
    ctx.prove(len(buf) % 4 == 0, "file-length-multiple-of-4")
    try:
        dec, conds = spec.spec_decode(buf, C, (Z, Y, X), block, itemsize)
    except spec.SpecError as e:
        ctx.fail("spec-decoder-rejects-file", detail=str(e))
        return
    if conds:
        ctx.prove(z3.And(conds), "table-indices-inside-table")
    eqs = [dec[c][z][y][x] == chunk.a[c, z, y, x].e
           for c in range(C) for z in range(Z) for y in range(Y) for x in range(X)]
    ctx.prove(z3.And(eqs), "spec-decoder-recovers-labels")
    own = enc.decode(SBytes(buf), (X, Y, Z))
    ctx.prove(own.shape == (C, Z, Y, X) and own.dtype == real_np.dtype(dtype), "own-decoder-shape-dtype")
    eqs = [own.a[idx].e == chunk.a[idx].e for idx in real_np.ndindex(C, Z, Y, X)]
    ctx.prove(z3.And(eqs), "own-decoder-recovers-labels")


# --------------------------------------------------------------------- replay

def _ref_decode(buf, C, shape, block, dtype):
    """Concrete spec decoder for the replay (same text, plain ints)."""
    from ..sbytes import SBytes as SB
    dec, conds = spec.spec_decode(SB(bytes(buf)), C, shape, block, real_np.dtype(dtype).itemsize)
    Z, Y, X = shape
    arr = real_np.zeros((C, Z, Y, X), dtype=dtype)
    for c in range(C):
        for z in range(Z):
            for y in range(Y):
                for x in range(X):
                    arr[c, z, y, x] = z3.simplify(dec[c][z][y][x]).as_long()
    for cnd in conds:
        if not z3.is_true(z3.simplify(cnd)):
            raise spec.SpecError("table index outside table")
    return arr


def replay(cfg, cex):
    ce = load.mod("chunk_encoding")
    dtype, C = cfg["dtype"], cfg["C"]
    Z, Y, X = cfg["shape"]
    block = cfg["block"]
    chunk = real_np.array(cex["inputs"]["chunk"], dtype=real_np.uint64).astype(dtype).reshape(C, Z, Y, X)
    enc = ce.CompressedSegmentationEncoder(dtype, C, block)
    try:
        buf = enc.encode(chunk)
    except Exception as e:
        return True, f"encoder raised {type(e).__name__}: {e}"
    if len(buf) % 4:
        return True, "file length not a multiple of 4"
    try:
        ref = _ref_decode(buf, C, (Z, Y, X), block, dtype)
    except spec.SpecError as e:
        return True, f"spec decoder rejects the file: {e}"
    if not real_np.array_equal(ref, chunk):
        return True, f"spec decoder returns {ref.ravel().tolist()} for {chunk.ravel().tolist()}"
    try:
        own = enc.decode(bytes(buf), (X, Y, Z))
    except Exception as e:
        return True, f"own decoder raised {type(e).__name__}: {e}"
    if own.shape != chunk.shape or own.dtype != chunk.dtype or not real_np.array_equal(own, chunk):
        return True, f"own decoder returns {own.ravel().tolist()} for {chunk.ravel().tolist()}"
    return False, "round trip correct on the real code"
