"""C19 - all-in-one conversion equals the step-by-step pipeline; steps are repeatable."""
import builtins
import json

import numpy as real_np
import z3

from .. import load
from ..findings import regions_for
from ..modelfs import GzBlob
from ..sarray import SArray, SIV
from ..sbytes import SBytes
from . import _vol as V

PROPERTY = "C19"
MODULES = ["scripts.volume_to_precomputed_pyramid", "scripts.volume_to_precomputed", "scripts.generate_scales_info",
           "scripts.compute_scales", "scripts.scale_stats", "volume_reader", "dyadic_pyramid"]
FUNCTIONS = ["scripts.volume_to_precomputed_pyramid.main/volume_to_precomputed_pyramid", "scripts.volume_to_precomputed.main",
             "scripts.generate_scales_info.main/generate_scales_info/set_info_params", "scripts.compute_scales.main/compute_scales",
             "scripts.scale_stats.main", "volume_reader.volume_file_to_info/volume_file_to_precomputed/nibabel_image_to_info",
             "dyadic_pyramid.fill_scales_for_dyadic_pyramid/compute_dyadic_scales", "downscaling.get_downscaler"]
STUBS = ["nibabel.load -> fake image with symbolic voxels (as C01)", "model file system incl. text-mode reads of concrete JSON",
         "argparse, json real; logging set-up no-op; atexit callbacks run at the end of every simulated command"]
ASSUMPTIONS = ["each command runs in its own simulated process (atexit flushed at its end)"]
EXPLANATION = ("Program P1 = the all-in-one command; P2 = generate-info, generate-scales-info, convert volume, compute-scales with "
               "the same options; both run in-process through their main(argv) on one model file system with symbolic voxels. "
               "The info files must be equal and every chunk of every scale must decode to the same term (solver equality); "
               "re-running the data-writing steps leaves the decoded contents equal; exit status 0 implies every chunk "
               "exists and decodes; statistics and a refused second generate-scales-info leave the files untouched.")
BOUNDS = {"quick": "volumes up to 132x3x2 (2-3 scales with the default 64 target chunk), uint8/uint16 images and segmentations, "
                   "downscaling methods auto/average/stride/majority, flat/gzip options, compressed_segmentation with 2 labels; each pipeline is "
                   "followed by the repeated data-writing steps, compute-scales with gzip toggled, convert-chunks --copy-info run twice, scale-stats",
          "thorough": "more option combinations, sharding"}
OUTSIDE = ["entry-point wiring / subprocesses", "malformed command lines", "the slices-to-precomputed step (C15)"]


def _cfg(shape, dtype, opts, **kw):
    d = dict(harness="pipeline", shape=list(shape), dtype=dtype, opts=list(opts), cost=4, wall=1500)
    d.update(kw)
    return d


def configs(tier, seed):
    out = [
        _cfg((130, 2, 1), "uint8", []),
        _cfg((132, 3, 2), "uint8", ["--type", "segmentation"]),                       # auto -> stride for segmentations
        _cfg((130, 1, 2), "uint16", ["--downscaling-method", "average", "--flat"]),
        _cfg((129, 2, 2), "uint8", ["--downscaling-method", "majority", "--type", "segmentation", "--no-gzip"]),
        _cfg((131, 2, 1), "uint8", ["--downscaling-method", "stride"]),
        _cfg((130, 2, 2), "uint8", ["--downscaling-method", "average", "--outside-value", "5"]),
        _cfg((129, 3, 1), "uint8", ["--outside-value", "0", "--no-gzip"]),       # falsy option values (0) must survive the plumbing
        _cfg((66, 2, 1), "uint8", ["--encoding", "compressed_segmentation", "--type", "segmentation"], two_labels=True, cost=8),
        # documented re-encoding workflow: raw pyramid, then generate-scales-info --encoding ... on its (multi-scale) info
        # and convert-chunks, against the all-in-one command with that encoding
        _cfg((130, 1, 1), "uint8", ["--encoding", "compressed_segmentation", "--type", "segmentation"], two_labels=True, reencode=True, cost=12),
        _cfg((64, 3, 2), "uint16", []),                                                # single scale
        _cfg((130, 2, 3), "uint8", ["--downscaling-method", "stride"], vs=[1.0, 1.0, 4.0]),   # anisotropic: chunk sizes change between scales
        _cfg((70, 131, 2), "uint16", ["--downscaling-method", "average"], vs=[2.0, 1.0, 1.0]),
        # header scaling (0.5 v + 10) with the value-mapping options of the volume-reading steps
        _cfg((3, 2, 2), "uint8", [], scaling=[0.5, 10.0], conv_opts=["--ignore-scaling", "--input-min", "0", "--input-max", "256"]),
        _cfg((3, 2, 1), "int16", [], scaling=[0.5, 10.0], conv_opts=["--input-min", "0", "--input-max", "128"]),
        _cfg((2, 2, 2), "uint8", ["--flat"], scaling=[0.5, 10.0], conv_opts=["--ignore-scaling"]),
        _cfg((3, 2, 1), "uint8", [], conv_opts=["--input-max", "128"]),          # --input-max alone (no --input-min), no header scaling
        _cfg((2, 2, 2), "uint16", ["--no-gzip"], conv_opts=["--input-min", "16", "--input-max", "80"]),
    ]
    if tier == "thorough":
        out += [_cfg((260, 2, 1), "uint8", ["--downscaling-method", "average"]), _cfg((130, 130, 1), "uint8", ["--flat", "--no-gzip"], cost=20),
                _cfg((140, 2, 3), "uint16", ["--type", "segmentation", "--downscaling-method", "majority"], cost=20)]
    return out


def _split_opts(opts):
    """options understood by each step of the documented sequence"""
    acc = [o for o in opts if o in ("--flat", "--no-gzip")]
    gen, comp = [], []
    it = iter(opts)
    for o in it:
        if o in ("--type", "--encoding"):
            gen += [o, next(it)]
        elif o in ("--downscaling-method", "--outside-value"):
            comp += [o, next(it)]
    return acc, gen, comp


def _files(W, prefix):
    return {p: d for p, d in W.env.fs.files.items() if p.startswith(prefix + "/")}


def _same_file(a, b):
    if isinstance(a, GzBlob) or isinstance(b, GzBlob):
        if not (isinstance(a, GzBlob) and isinstance(b, GzBlob)):
            return False
        r = a == b
    else:
        r = SBytes(a) == SBytes(b)
    return r if isinstance(r, bool) else r.e


def _run(ctx, W, mod, argv, label, expect_ok=True):
    try:
        rc = mod.main(argv)
    except SystemExit as e:
        rc = e.code
    except Exception as e:
        if type(e).__name__ in ("OutsideModel", "Inconclusive"):
            raise
        rc = f"{type(e).__name__}: {e}"
    finally:
        W.finish()
    if expect_ok:
        ctx.prove(rc == 0, f"{label}-exit-status-0", detail=str(rc))
    return rc


def _decode_all(ctx, W, url, label, ropts):
    info = json.loads(bytes(W.env.fs.files[url + "/info"].concrete()))
    levels = []
    for i in range(len(info["scales"])):
        got, problems, _ = W.read_scale(url, info, i, ropts)
        if problems:
            ctx.fail(f"{label}-chunk-missing-or-unreadable-after-success", detail=f"scale {i}: " + "; ".join(problems[:2]))
            return info, None
        if any(v is None for v in got.ravel()):
            ctx.fail(f"{label}-voxel-not-written", detail=f"scale {i}")
            return info, None
        levels.append(got)
    return info, levels


def H_pipeline(ctx, cfg):
    W = V.World(exact_int=True)
    shape, dtype, opts = cfg["shape"], cfg["dtype"], cfg["opts"]

    class VRNP(type(W.npx)):
        def empty(self, *a, **k):          # only the 4x4 transform matrix is allocated in volume_reader
            return real_np.empty(*a, **k)
    vrnp = VRNP(exact_int=True)
    vrnp.asanyarray = W.npx.asanyarray
    load.patch("volume_reader", np=vrnp)
    load.patch("utils", init_logging_for_cmdline=lambda: None)
    if cfg.get("two_labels"):
        la, lb = SIV(z3.Int("labelA"), dtype), SIV(z3.Int("labelB"), dtype)
        info_ = real_np.iinfo(dtype)
        for l in (la, lb):
            ctx.assume(z3.And(l.v >= info_.min, l.v <= info_.max))
        a = real_np.empty(tuple(shape), dtype=object)
        for idx in real_np.ndindex(*shape):
            a[idx] = la if (idx[0] // 9 + idx[1]) % 2 == 0 else lb
        vol = SArray(a, dtype)
        ctx.input("labels", [la.v, lb.v])
    else:
        vol = SArray.fresh(tuple(shape), dtype, "v", exact_int=True)
        ctx.input("volume", [x.__zexpr__() for x in vol.a.ravel()])
    for fid, expr in regions_for(PROPERTY, "pipeline"):
        ctx.region(fid, builtins.bool(eval(expr, {"cfg": cfg})))
    affine = real_np.diag(list(cfg.get("vs", [2.0, 2.0, 2.0])) + [1.0])
    sl, it = cfg.get("scaling") or (None, None)
    conv_o = list(cfg.get("conv_opts", []))       # options of the volume-reading steps (--ignore-scaling, --input-min/max)

    def fresh_image():
        return V.FakeImage(vol, affine=affine, slope=sl, inter=it)      # every command loads the file anew
    W.images["/in/vol.nii"] = fresh_image()
    acc_o, gen_o, comp_o = _split_opts(opts)
    pyr = W.script("volume_to_precomputed_pyramid", nibabel=W.nibabel)
    v2p = W.script("volume_to_precomputed")
    gsi = W.script("generate_scales_info", open=W.env.open)
    cs_ = W.script("compute_scales")
    st = W.script("scale_stats", print=lambda *a, **k: None)
    p1, p2 = "/mfs/p1", "/mfs/p2"
    # ---- P1: all-in-one
    W.images["/in/vol.nii"] = fresh_image()
    _run(ctx, W, pyr, ["prog", "/in/vol.nii", p1] + opts + conv_o, "all-in-one")
    # ---- P2: documented sequence
    W.images["/in/vol.nii"] = fresh_image()
    rc_info = _run(ctx, W, v2p, ["prog", "/in/vol.nii", p2, "--generate-info"] + acc_o + conv_o, "generate-info", expect_ok=not conv_o)
    if conv_o:
        # with --input-max the values are float64: the tool picks float32 and says so with exit status 4 (documented)
        ctx.prove(rc_info in (0, 4), "generate-info-exit-status-0-or-4", detail=str(rc_info))
    _run(ctx, W, gsi, ["prog", p2 + "/info_fullres.json", p2] + gen_o, "generate-scales-info")
    W.images["/in/vol.nii"] = fresh_image()
    _run(ctx, W, v2p, ["prog", "/in/vol.nii", p2] + acc_o + conv_o, "convert-volume")
    _run(ctx, W, cs_, ["prog", p2] + acc_o + comp_o, "compute-scales")
    ropts = dict(flat="--flat" in opts, gzip="--no-gzip" not in opts)
    i1, l1 = _decode_all(ctx, W, p1, "all-in-one", ropts)
    i2, l2 = _decode_all(ctx, W, p2, "step-by-step", ropts)
    ctx.sample(dict(shape=shape, opts=opts, scales=[(s["key"], s["size"]) for s in i1["scales"]]))
    ctx.prove(i1 == i2, "info-files-equal", detail=f"{json.dumps(i1)[:200]} vs {json.dumps(i2)[:200]}")
    if l1 is None or l2 is None or len(l1) != len(l2):
        return
    for li, (a, b) in enumerate(zip(l1, l2)):
        ok = a.shape == b.shape
        ctx.prove(ok, f"scale-{li}-same-shape")
        if ok:
            ctx.prove(z3.And([V.eq_elems(x, y) for x, y in zip(a.ravel(), b.ravel())]), f"scale-{li}-decodes-to-the-same-voxels")
    if cfg.get("reencode"):
        # ---- raw pyramid first (same options without --encoding), then re-encoded through generate-scales-info + convert-chunks
        p6, p7 = "/mfs/p6", "/mfs/p7"
        cc_ = W.script("convert_chunks")
        raw_gen = [o for i_, o in enumerate(gen_o) if o != "--encoding" and (i_ == 0 or gen_o[i_ - 1] != "--encoding")]
        W.images["/in/vol.nii"] = fresh_image()
        _run(ctx, W, v2p, ["prog", "/in/vol.nii", p6, "--generate-info"] + acc_o + conv_o, "raw-generate-info")
        _run(ctx, W, gsi, ["prog", p6 + "/info_fullres.json", p6] + raw_gen, "raw-generate-scales-info")
        W.images["/in/vol.nii"] = fresh_image()
        _run(ctx, W, v2p, ["prog", "/in/vol.nii", p6] + acc_o + conv_o, "raw-convert-volume")
        _run(ctx, W, cs_, ["prog", p6] + acc_o + comp_o, "raw-compute-scales")
        _run(ctx, W, gsi, ["prog", p6 + "/info", p7] + gen_o, "re-encode-generate-scales-info")
        _run(ctx, W, cc_, ["prog", p6, p7] + acc_o, "re-encode-convert-chunks")
        i7, l7 = _decode_all(ctx, W, p7, "re-encoded", ropts)
        ctx.prove(i7 == i1, "re-encoded-info-equals-all-in-one-info", detail=f"{json.dumps(i7)[:300]} vs {json.dumps(i1)[:300]}")
        if l7 is not None and l1 is not None and len(l7) == len(l1):
            for li, (a, b) in enumerate(zip(l1, l7)):
                ctx.prove(a.shape == b.shape and z3.And([V.eq_elems(x, y) for x, y in zip(a.ravel(), b.ravel())]),
                          f"scale-{li}-re-encoded-decodes-to-the-same-voxels")
        return      # the repeat / read-only sections are decided by the other configurations
    # ---- repeatability: run the data-writing steps again on their own output
    W.images["/in/vol.nii"] = fresh_image()
    _run(ctx, W, v2p, ["prog", "/in/vol.nii", p2] + acc_o + conv_o, "convert-volume-again")
    _run(ctx, W, cs_, ["prog", p2] + acc_o + comp_o, "compute-scales-again")
    _, l3 = _decode_all(ctx, W, p2, "after-repeat", ropts)
    if l3 is not None:
        for li, (a, b) in enumerate(zip(l2, l3)):
            ctx.prove(a.shape == b.shape and z3.And([V.eq_elems(x, y) for x, y in zip(a.ravel(), b.ravel())]),
                      f"scale-{li}-unchanged-by-repeating-the-steps")
    # ---- repeating compute-scales with the gzip option toggled still leaves the same decoded contents
    toggled = [o for o in acc_o if o != "--no-gzip"] + ([] if "--no-gzip" in acc_o else ["--no-gzip"])
    _run(ctx, W, cs_, ["prog", p2] + toggled + comp_o, "compute-scales-gzip-toggled")
    _, l4 = _decode_all(ctx, W, p2, "after-toggled-repeat", ropts)
    if l4 is not None:
        for li, (a, b) in enumerate(zip(l2, l4)):
            ctx.prove(a.shape == b.shape and z3.And([V.eq_elems(x, y) for x, y in zip(a.ravel(), b.ravel())]),
                      f"scale-{li}-unchanged-by-repeating-with-gzip-toggled")
    # ---- convert-chunks as a further step of the workflow (same options, --copy-info), run twice
    cc_ = W.script("convert_chunks")
    p3 = "/mfs/p3"
    # first run copies the info; the repeat uses the info now present in the destination (a second --copy-info is
    # refused because the info exists: allowed to fail, but must leave the contents alone)
    for label, extra, must_succeed in (("convert-chunks", ["--copy-info"], True), ("convert-chunks-again", [], True),
                                       ("convert-chunks-copy-info-again", ["--copy-info"], False)):
        _run(ctx, W, cc_, ["prog", p2, p3] + extra + acc_o, label, expect_ok=must_succeed)
        i5, l5 = _decode_all(ctx, W, p3, label, ropts)
        ctx.prove(i5 == i2, f"{label}-copies-the-info")
        if l5 is not None and len(l5) == len(l2):
            for li, (a, b) in enumerate(zip(l2, l5)):
                ctx.prove(a.shape == b.shape and z3.And([V.eq_elems(x, y) for x, y in zip(a.ravel(), b.ravel())]),
                          f"scale-{li}-after-{label}-decodes-to-the-same-voxels")
    # ---- read-only commands leave the dataset untouched
    before = _files(W, p2)
    _run(ctx, W, st, ["prog", p2], "scale-stats")
    rc = _run(ctx, W, gsi, ["prog", p2 + "/info_fullres.json", p2] + gen_o, "generate-scales-info-again", expect_ok=False)
    ctx.prove(rc != 0, "second-generate-scales-info-refuses-to-overwrite-info", detail=str(rc))
    after = _files(W, p2)
    ctx.prove(sorted(before) == sorted(after), "statistics-and-refused-step-leave-file-set-untouched")
    same = [_same_file(before[p], after[p]) for p in before if p in after]
    ctx.prove(z3.And([z3.BoolVal(c) if isinstance(c, bool) else c for c in same]), "statistics-and-refused-step-leave-files-byte-identical")


# --------------------------------------------------------------------- replay

def replay(cfg, cex):
    import os
    import tempfile
    import nibabel
    shape, dtype, opts = cfg["shape"], cfg["dtype"], cfg["opts"]
    inp = cex["inputs"]
    if cfg.get("two_labels"):
        la, lb = inp["labels"]
        vol = real_np.empty(tuple(shape), dtype=dtype)
        for idx in real_np.ndindex(*shape):
            vol[idx] = la if (idx[0] // 9 + idx[1]) % 2 == 0 else lb
    else:
        vol = real_np.array(inp["volume"], dtype=real_np.uint64).astype(dtype).reshape(shape)
    pyr = load.mod("scripts.volume_to_precomputed_pyramid")
    v2p = load.mod("scripts.volume_to_precomputed")
    gsi = load.mod("scripts.generate_scales_info")
    cs_ = load.mod("scripts.compute_scales")
    pio = load.mod("precomputed_io")
    acc_mod = load.mod("accessor")
    acc_o, gen_o, comp_o = _split_opts(opts)
    with tempfile.TemporaryDirectory() as td:
        fn = os.path.join(td, "vol.nii")
        img = nibabel.Nifti1Image(vol, real_np.diag(list(cfg.get("vs", [2.0, 2.0, 2.0])) + [1.0]))
        if cfg.get("scaling"):
            img.header.set_data_dtype(dtype)
            img.header.set_slope_inter(*cfg["scaling"])
        nibabel.save(img, fn)
        conv_o = list(cfg.get("conv_opts", []))
        p1, p2 = os.path.join(td, "p1"), os.path.join(td, "p2")

        def run(mod, argv):
            try:
                return mod.main(argv)
            except SystemExit as e:
                return e.code
            except Exception as e:
                return f"{type(e).__name__}: {e}"
        steps = [(pyr, ["prog", fn, p1] + opts + conv_o), (v2p, ["prog", fn, p2, "--generate-info"] + acc_o + conv_o),
                 (gsi, ["prog", os.path.join(p2, "info_fullres.json"), p2] + gen_o), (v2p, ["prog", fn, p2] + acc_o + conv_o),
                 (cs_, ["prog", p2] + acc_o + comp_o)]
        toggled = [o for o in acc_o if o != "--no-gzip"] + ([] if "--no-gzip" in acc_o else ["--no-gzip"])
        steps += [(v2p, ["prog", fn, p2] + acc_o + conv_o), (cs_, ["prog", p2] + acc_o + comp_o), (cs_, ["prog", p2] + toggled + comp_o)]
        cc_ = load.mod("scripts.convert_chunks")
        p3 = os.path.join(td, "p3")
        steps += [(cc_, ["prog", p2, p3, "--copy-info"] + acc_o), (cc_, ["prog", p2, p3] + acc_o)]
        for mod, argv in steps:
            rc = run(mod, argv)
            if rc == 4 and conv_o and "--generate-info" in argv:
                continue         # float values: float32 chosen, reported with exit status 4
            if rc != 0:
                return True, f"{mod.__name__.rsplit('.', 1)[1]} {argv[2:]} exited with {rc}"
        extra_dirs = []
        if cfg.get("reencode"):
            p6, p7 = os.path.join(td, "p6"), os.path.join(td, "p7")
            raw_gen = [o for i_, o in enumerate(gen_o) if o != "--encoding" and (i_ == 0 or gen_o[i_ - 1] != "--encoding")]
            for mod, argv in ((v2p, ["prog", fn, p6, "--generate-info"] + acc_o + conv_o), (gsi, ["prog", os.path.join(p6, "info_fullres.json"), p6] + raw_gen),
                              (v2p, ["prog", fn, p6] + acc_o + conv_o), (cs_, ["prog", p6] + acc_o + comp_o),
                              (gsi, ["prog", os.path.join(p6, "info"), p7] + gen_o), (cc_, ["prog", p6, p7] + acc_o)):
                rc = run(mod, argv)
                if rc != 0:
                    return True, f"{mod.__name__.rsplit('.', 1)[1]} {argv[2:]} exited with {rc}"
            extra_dirs = [p7]
        rc = run(gsi, ["prog", os.path.join(p2, "info_fullres.json"), p2] + gen_o)
        if rc == 0:
            return True, "a second generate-scales-info on the same directory exits with status 0 (the existing info must not be replaced silently)"
        ropts = dict(flat="--flat" in opts, gzip="--no-gzip" not in opts)
        infos, data = [], []
        for p in [p1, p2, p3] + extra_dirs:
            r = pio.get_IO_for_existing_dataset(acc_mod.get_accessor_for_url(p, ropts))
            infos.append(r.info)
            lv = []
            for sc in r.info["scales"]:
                X, Y, Z = sc["size"]
                cs = sc["chunk_sizes"][0]
                arr = real_np.zeros((r.info["num_channels"], Z, Y, X), dtype=r.info["data_type"])
                for x0 in range(0, X, cs[0]):
                    for y0 in range(0, Y, cs[1]):
                        for z0 in range(0, Z, cs[2]):
                            cc = (x0, min(x0 + cs[0], X), y0, min(y0 + cs[1], Y), z0, min(z0 + cs[2], Z))
                            try:
                                arr[:, cc[4]:cc[5], cc[2]:cc[3], cc[0]:cc[1]] = r.read_chunk(sc["key"], cc)
                            except Exception as e:
                                return True, f"{p}: scale {sc['key']} chunk {cc}: {type(e).__name__}: {e}"
                lv.append(arr)
            data.append(lv)
        if infos[0] != infos[1]:
            return True, "info files differ between the all-in-one command and the step-by-step pipeline"
        for li, (a, b) in enumerate(zip(data[0], data[1])):
            if a.shape != b.shape or not real_np.array_equal(a, b):
                return True, f"scale {infos[0]['scales'][li]['key']}: {builtins.int((a != b).sum()) if a.shape == b.shape else '?'} voxels differ between the all-in-one command and the step-by-step pipeline"
        if infos[2] != infos[1] or len(data[2]) != len(data[1]):
            return True, "convert-chunks --copy-info produced a different info"
        for li, (a, b) in enumerate(zip(data[1], data[2])):
            if a.shape != b.shape or not real_np.array_equal(a, b):
                return True, f"scale {infos[1]['scales'][li]['key']}: voxels differ after convert-chunks (run twice)"
        if extra_dirs:
            if infos[3] != infos[0]:
                return True, f"re-encoding workflow (generate-scales-info on the raw pyramid's info + convert-chunks): info differs from the all-in-one info: {json.dumps(infos[3])[:400]}"
            for li, (a, b) in enumerate(zip(data[0], data[3])):
                if a.shape != b.shape or not real_np.array_equal(a, b):
                    return True, f"scale {infos[0]['scales'][li]['key']}: voxels differ after the re-encoding workflow"
    return False, "both pipelines agree on the real code"
