"""C12 - file storage returns the latest stored bytes under every layout option; confinement."""
import builtins
import itertools
import posixpath

import z3

from .. import load
from ..findings import regions_for
from ..modelfs import Env, GzBlob
from ..sbytes import SBytes, sym_bytes
from ..values import SInt

PROPERTY = "C12"
MODULES = ["file_accessor", "sharded_file_accessor", "accessor"]
FUNCTIONS = ["file_accessor.FileAccessor.__init__/file_exists/fetch_file/store_file/fetch_chunk/store_chunk/_chunk_path",
             "sharded_file_accessor.ShardedFileAccessor.__init__/file_exists/fetch_file/store_file",
             "accessor.get_accessor_for_url (file scheme)"]
STUBS = ["pathlib.Path -> PurePosixPath subclass bound to the model file system (all path algebra is real pathlib)",
         "open/os.makedirs/os.path -> model file system ('xb' raises FileExistsError, missing file FileNotFoundError)",
         "gzip.open -> uninterpreted invertible image GzBlob(payload); reading a non-gzip file raises BadGzipFile, an "
         "unfinished image EOFError (so 'valid gzip stream' is decided only as 'written by the gzip writer and finished')"]
ASSUMPTIONS = ["a name is always stored with the same MIME type", "POSIX path semantics"]
EXPLANATION = ("Histories of k operations are explored by solver-driven case split over (operation, target, overwrite flag, "
               "length); the stored contents are symbolic bytes and every fetched byte string is proved equal to the "
               "abstract store's latest content; writer and reader layout options vary independently.")
BOUNDS = {"quick": "k=2 operations over 2 file names and 2 chunk positions, contents of length 0 or 2 (symbolic bytes), all 4x4 "
                   "writer/reader (flat, gzip) combinations; confinement: all joins of <=3 segments from {'..','.','','a','b:0'} "
                   "with and without leading '/', for FileAccessor and ShardedFileAccessor store/fetch/exists",
          "thorough": "k=3 operations; confinement with <=4 segments"}
OUTSIDE = ["validity of real gzip byte streams", "the effect of the compression level on the compressed bytes (levels 0, 1, 6, 9 are passed; the model's gzip stream does not depend on it)", "non-POSIX path semantics",
           "symbolic path strings (enumerated spellings only; CrossHair was inconclusive on pathlib, DESIGN.md section 6)"]

# two names that share a stem and differ only in the last extension, one name with a colon, one exempt from compression
NAMES = [("info", "application/json"), ("mesh/l.frag0:0", "application/octet-stream"), ("mesh/l.frag1:0", "application/octet-stream")]
CHUNKS = [("8_8_40", (0, 2, 0, 2, 0, 1)), ("k0", (2, 4, 0, 2, 0, 1))]      # scale keys may contain underscores (e.g. resolution triples)
NO_COMPRESS = {"application/json", "image/jpeg", "image/png"}


def configs(tier, seed):
    out = []
    k = 2 if tier == "quick" else 3
    for n_, (wf, wg, rf, rg) in enumerate(itertools.product((False, True), repeat=4)):
        out.append(dict(harness="history", k=k, writer=[wf, wg], reader=[rf, rg], level=(0, 6, 9, 1)[n_ % 4], cost=5 if k == 2 else 40,
                        wall=3000, max_paths=200000))
    segs = ["..", ".", "", "a", "b:0"]
    n = 3 if tier == "quick" else 4
    spellings = set()
    for ln in range(1, n + 1):
        for combo in itertools.product(segs, repeat=ln):
            s = "/".join(combo)
            spellings.add(s)
            spellings.add("/" + s)
    spellings = sorted(spellings)
    for i in range(0, len(spellings), 40):
        out.append(dict(harness="confine", spellings=spellings[i:i + 40], cost=2))
    return out


def _patched(env):
    fa = load.patch("file_accessor", pathlib=env.pathlib, os=env.os, gzip=env.gzip, open=env.open)
    return fa


def _expected_path(base, key, cc, flat, gz, mime):
    if flat:
        p = f"{base}/{key}/{cc[0]}-{cc[1]}_{cc[2]}-{cc[3]}_{cc[4]}-{cc[5]}"
    else:
        p = f"{base}/{key}/{cc[0]}-{cc[1]}/{cc[2]}-{cc[3]}/{cc[4]}-{cc[5]}"
    return p + (".gz" if gz and mime not in NO_COMPRESS else "")


def _pick(ctx, name, n):
    v = SInt.var(name, "int")
    ctx.assume(z3.And(v.e >= 0, v.e < n))
    return v.__index__()


def _same_bytes(ctx, got, want, label):
    if isinstance(got, GzBlob):
        ctx.fail(label + "-returned-compressed-image")
        return
    g = got if isinstance(got, SBytes) else SBytes(got)
    if len(g) != len(want):
        ctx.prove(False, label + "-length", detail=f"{len(g)} vs {len(want)}")
        return
    r = (g == want)
    ctx.prove(r if isinstance(r, bool) else r.e, label)


def H_history(ctx, cfg):
    env = Env()
    fa = _patched(env)
    DataAccessError = load.mod("accessor").DataAccessError
    base = "/mfs/ds"
    wf, wg = cfg["writer"]
    rf, rg = cfg["reader"]
    w = fa.FileAccessor(base, flat=wf, gzip=wg, compresslevel=cfg.get("level", 6))      # level 0 is a valid gzip level (stored blocks)
    r = fa.FileAccessor(base, flat=rf, gzip=rg)
    store = {}
    hist = []
    ctx.input("history", hist)      # filled as the history unfolds
    for step in range(cfg["k"]):
        op = _pick(ctx, f"op{step}", 5)
        tgt = _pick(ctx, f"tgt{step}", 2 if op in (1, 3) else len(NAMES))
        if op in (0, 1):       # store_file / store_chunk
            ow = bool(_pick(ctx, f"ow{step}", 2))
            ln = 2 * _pick(ctx, f"len{step}", 2)
            data = SBytes([z3.BitVec(f"d{step}_{i}", 8) for i in range(ln)])
            ctx.input(f"data{step}", [b for b in data.bs])
            if op == 0:
                name, mime = NAMES[tgt]
                key = ("file", name)
                call = lambda: w.store_file(name, data, mime_type=mime, overwrite=ow)    # noqa
                path = f"{base}/{name}" + (".gz" if wg and mime not in NO_COMPRESS else "")
            else:
                k0, cc = CHUNKS[tgt]
                mime = "application/octet-stream"
                key = ("chunk", k0, cc)
                call = lambda: w.store_chunk(data, k0, cc, mime_type=mime, overwrite=ow)   # noqa
                path = _expected_path(base, k0, cc, wf, wg, mime)
            hist.append(["store_file" if op == 0 else "store_chunk", tgt, ow, ln])
            exists = key in store
            before = env.fs.files.get(path)
            try:
                call()
            except DataAccessError:
                ctx.prove(exists and not ow, "store-refused-only-without-overwrite-permission-on-existing")
                ctx.prove(env.fs.files.get(path) is before, "refused-store-leaves-content-untouched")
                continue
            ctx.prove(ow or not exists, "store-without-overwrite-on-existing-must-fail")
            store[key] = data
            got = env.fs.files.get(path)
            if got is None:
                ctx.fail("stored-at-documented-path", detail=f"{path} missing; have {sorted(env.fs.files)}")
            elif wg and mime not in NO_COMPRESS:
                ctx.prove(isinstance(got, GzBlob) and got.complete, "gz-suffix-holds-finished-gzip-image")
            else:
                ctx.prove(isinstance(got, SBytes), "plain-path-holds-plain-bytes")
        elif op in (2, 3):     # fetch
            if op == 2:
                name, _ = NAMES[tgt]
                key = ("file", name)
                call = lambda: r.fetch_file(name)     # noqa
            else:
                k0, cc = CHUNKS[tgt]
                key = ("chunk", k0, cc)
                call = lambda: r.fetch_chunk(k0, cc)  # noqa
            hist.append(["fetch_file" if op == 2 else "fetch_chunk", tgt])
            try:
                got = call()
            except DataAccessError:
                ctx.prove(key not in store, "fetch-fails-only-when-nothing-stored")
                continue
            if key not in store:
                ctx.fail("fetch-of-never-stored-name-returned-data")
                continue
            _same_bytes(ctx, got, store[key], "fetch-returns-latest-stored-bytes")
        else:
            name, _ = NAMES[tgt]
            hist.append(["file_exists", tgt])
            ctx.prove(bool(r.file_exists(name)) == (("file", name) in store), "file_exists-iff-stored")
    ctx.sample(dict(writer=cfg["writer"], reader=cfg["reader"], history=hist))
    # final read-back of everything through the reader configuration
    for key, data in store.items():
        got = r.fetch_file(key[1]) if key[0] == "file" else r.fetch_chunk(key[1], key[2])
        _same_bytes(ctx, got, data, "final-read-back-under-other-configuration")


def _resolves_outside(base, rel):
    if rel.startswith("/"):
        full = posixpath.normpath(rel)
    else:
        full = posixpath.normpath(posixpath.join(base, rel))
    return not (full == base or full.startswith(base + "/")), full


def H_confine(ctx, cfg):
    base = "/mfs/ds"
    bad = []
    n = 0
    for sp in cfg["spellings"]:
        for kind in ("file", "sharded"):
            for op in ("store", "fetch", "exists"):
                env = Env()
                fa = _patched(env)
                if kind == "file":
                    acc = fa.FileAccessor(base, flat=False, gzip=False)
                else:
                    sfa = load.preseed("sharded_file_accessor", pathlib=env.pathlib, open=env.open,
                                       TemporaryDirectory=env.TemporaryDirectory, uuid4=env.uuid4)
                    env.install_atexit()
                    acc = sfa.ShardedFileAccessor(base)
                # a file outside the dataset that must never be read, created or replaced
                env.fs.mkdir_p("/mfs/ds/a")
                env.fs.mkdir_p("/mfs/a")
                for victim in ("/mfs/a", "/a", "/data/b:0", "/b:0", "/data/ds/../x"):
                    pass
                calls0 = env.fs.calls
                outside, full = _resolves_outside(base, sp)
                files0 = dict(env.fs.files)
                raised = None
                try:
                    if op == "store":
                        acc.store_file(sp, b"xy", overwrite=True)
                    elif op == "fetch":
                        acc.fetch_file(sp)
                    else:
                        acc.file_exists(sp)
                except Exception as e:          # noqa
                    raised = e
                n += 1
                new_outside = [p for p in env.fs.files if p not in files0 and not p.startswith(base + "/")]
                if outside:
                    if raised is None or env.fs.calls != calls0 or new_outside:
                        bad.append([kind, op, sp, "not refused" if raised is None else "file system touched",
                                    env.fs.calls - calls0, new_outside])
                elif new_outside:
                    bad.append([kind, op, sp, "wrote outside", 0, new_outside])
    ctx.input("bad", bad)
    ctx.sample(dict(spellings=cfg["spellings"][:5], cases=n))
    regs = regions_for(PROPERTY, "confine")
    known = set()
    for fid, expr in regs:
        known |= {i for i, b in enumerate(bad) if eval(expr, {"kind": b[0], "op": b[1], "spelling": b[2]})}
        if any(eval(expr, {"kind": b[0], "op": b[1], "spelling": b[2]}) for b in bad):
            ctx.region(fid, True)
    rest = [b for i, b in enumerate(bad) if i not in known]
    if regs and known and not rest:
        ctx.fail("paths-resolving-outside-the-dataset-are-refused-without-touching-the-file-system", detail=str(bad[:3]))
        return
    ctx.regions = []
    ctx.prove(not rest, "paths-resolving-outside-the-dataset-are-refused-without-touching-the-file-system", detail=str(rest[:4]))


# --------------------------------------------------------------------- replay

def replay(cfg, cex):
    import os
    import tempfile
    inp = cex["inputs"]
    fa = load.mod("file_accessor")
    acc_mod = load.mod("accessor")
    if cfg["harness"] == "confine":
        for kind, op, sp, why, _, _ in inp["bad"]:
            with tempfile.TemporaryDirectory() as td:
                base = os.path.join(td, "data", "ds")
                os.makedirs(os.path.join(base, "a"))
                os.makedirs(os.path.join(td, "data", "a"))
                if kind == "file":
                    acc = fa.FileAccessor(base, flat=False, gzip=False)
                else:
                    acc = load.mod("sharded_file_accessor").ShardedFileAccessor(base)
                rel = sp
                if sp.startswith("/"):
                    # an absolute path outside the dataset, kept inside the scratch directory
                    rel = os.path.join(td, "abs") + sp
                    os.makedirs(os.path.join(td, "abs", "a"), exist_ok=True)
                    os.makedirs(os.path.join(td, "abs", "b:0"), exist_ok=True)
                before = set(os.path.join(dp, f) for dp, _, fs in os.walk(td) for f in fs)
                try:
                    if op == "store":
                        acc.store_file(rel, b"xy", overwrite=True)
                    elif op == "fetch":
                        acc.fetch_file(rel)
                    else:
                        acc.file_exists(rel)
                except Exception:
                    continue
                after = set(os.path.join(dp, f) for dp, _, fs in os.walk(td) for f in fs)
                esc = [p for p in after - before if not os.path.realpath(p).startswith(os.path.realpath(base) + os.sep)]
                full = os.path.normpath(os.path.join(base, rel))
                if esc or not (full + os.sep).startswith(base + os.sep):
                    return True, f"{kind} accessor {op}_file({sp!r}) was not refused (resolves to {full}, outside {base}); files created outside: {esc}"
        return False, "all listed spellings refused on the real code"
    # history: replay concretely on a real temporary directory with an abstract store
    with tempfile.TemporaryDirectory() as td:
        base = os.path.join(td, "ds")
        wf, wg = cfg["writer"]
        rf, rg = cfg["reader"]
        w = fa.FileAccessor(base, flat=wf, gzip=wg, compresslevel=cfg.get("level", 6))
        r = fa.FileAccessor(base, flat=rf, gzip=rg)
        store = {}
        for step, h in enumerate(inp["history"]):
            if h[0] in ("store_file", "store_chunk"):
                data = bytes(inp.get(f"data{step}", []))
                tgt, ow = h[1], h[2]
                if h[0] == "store_file":
                    name, mime = NAMES[tgt]
                    key = ("file", name)
                    call = lambda: w.store_file(name, data, mime_type=mime, overwrite=ow)   # noqa
                else:
                    k0, cc = CHUNKS[tgt]
                    key = ("chunk", k0, cc)
                    call = lambda: w.store_chunk(data, k0, cc, overwrite=ow)   # noqa
                try:
                    call()
                except acc_mod.DataAccessError:
                    if not (key in store and not ow):
                        return True, f"step {step} {h}: store refused unexpectedly"
                    continue
                except Exception as e:
                    return True, f"step {step} {h}: {type(e).__name__}: {e}"
                if key in store and not ow:
                    return True, f"step {step} {h}: store without overwrite permission replaced existing content"
                store[key] = data
                if h[0] == "store_file":
                    doc = os.path.join(base, name) + (".gz" if wg and mime not in NO_COMPRESS else "")
                else:
                    doc = _expected_path(base, k0, cc, wf, wg, "application/octet-stream")
                if not os.path.isfile(doc):
                    return True, f"step {step} {h}: nothing stored at the documented path {os.path.relpath(doc, td)}"
            elif h[0] in ("fetch_file", "fetch_chunk"):
                tgt = h[1]
                if h[0] == "fetch_file":
                    key = ("file", NAMES[tgt][0])
                    call = lambda: r.fetch_file(NAMES[tgt][0])   # noqa
                else:
                    key = ("chunk",) + CHUNKS[tgt]
                    call = lambda: r.fetch_chunk(*CHUNKS[tgt])   # noqa
                try:
                    got = call()
                except acc_mod.DataAccessError:
                    if key in store:
                        return True, f"step {step} {h}: fetch failed although stored"
                    continue
                except Exception as e:
                    return True, f"step {step} {h}: {type(e).__name__}: {e}"
                if key not in store or got != store[key]:
                    return True, f"step {step} {h}: fetched {got!r}, expected {store.get(key)!r}"
            else:
                name = NAMES[h[1]][0]
                if bool(r.file_exists(name)) != (("file", name) in store):
                    return True, f"step {step} {h}: file_exists wrong"
        for key, data in store.items():
            try:
                got = r.fetch_file(key[1]) if key[0] == "file" else r.fetch_chunk(key[1], key[2])
            except Exception as e:
                return True, f"final read-back of {key}: {type(e).__name__}: {e}"
            if got != data:
                return True, f"final read-back of {key}: {got!r} != {data!r}"
    return False, "history behaves correctly on the real code"
