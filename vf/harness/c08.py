"""C08 - generated scale metadata is consistent and usable by every later step."""
import builtins
import copy
import itertools
import json
import math as real_math
import random
import types

import numpy as real_np
import z3

from .. import load
from ..core import OutsideModel
from ..findings import regions_for
from ..sarray import NPProxy
from ..values import SInt, SQuot
from . import _vol as V

PROPERTY = "C08"
MODULES = ["dyadic_pyramid", "scripts.generate_scales_info", "utils", "chunk_encoding"]
FUNCTIONS = ["dyadic_pyramid.fill_scales_for_dyadic_pyramid (incl. nested downscale_info)", "dyadic_pyramid.choose_unit_for_key",
             "utils.format_length", "utils.ceil_div", "scripts.generate_scales_info.set_info_params/generate_scales_info",
             "chunk_encoding.get_encoder", "dyadic_pyramid.compute_dyadic_downscaling (its admission checks only)"]
STUBS = ["math.log2 / math.ceil on size/target quotients -> their defining inequalities on exact integers: ceil(log2(a/t)) = k "
         "with t*2^(k-1) < a <= t*2^k (float rounding of log2 excluded); k is case split",
         "np.ndindex -> empty (only the admission checks of compute_dyadic_downscaling run); model file system for the JSON round trip"]
ASSUMPTIONS = ["harness structure: resolutions are enumerated (fixed list + VERIF_SEED-drawn), sizes are symbolic",
               "harness keys: the base resolution is a symbolic exact real per decade, ratios between axes enumerated powers of two; "
               "products with the unit factors are exact (the doubles 1e-3, 1e-6, ... are used with their exact binary values)"]
EXPLANATION = ("Volume sizes are symbolic integers (1..10^9 per axis); the real generator runs for each enumerated resolution "
               "triple / target chunk size / max-scales; the number of levels is resolved by solver-driven case split on the "
               "defining inequalities of ceil(log2(size/target)); per path the solver proves the size formula of every level and "
               "that the last level fits in two target chunks per axis; chunk-size, key-distinctness, encoder-acceptance and "
               "pyramid-computation-admission clauses are evaluated on the generated (concrete) fields of each path.")
BOUNDS = {"quick": "one axis size symbolic 1..10^9 (each axis in turn), the two other sizes from {1,3,7,70,100,129,4096,10^9}; 20 resolution triples (isotropic, ratios 1..16, fractional, 800:800:1200-like) x target chunk "
                   "sizes {1,2,16,64} x max_scales {None,2}",
          "thorough": "the quick resolution triples plus 12 random ones x target chunk sizes {1,2,8,32,64,256} x max_scales {None,1,5} x 3 symbolic-axis variants; all 12 decades x 5 ratio patterns for the keys harness"}
OUTSIDE = ["float rounding inside math.log2 at ratios within 2^-50 of a rounding boundary and inside length*factor",
           "resolutions below 1 pm (no length unit exists: the generator raises NotImplementedError by design)",
           "symbolic (non-enumerated) resolutions"]

RES = [(1.0, 1.0, 1.0), (20000.0, 20000.0, 20000.0), (1.0, 1.0, 2.0), (2.0, 1.0, 1.0), (1.0, 4.0, 1.0), (1.0, 2.0, 4.0), (4.0, 1.0, 2.0),
       (1.0, 4.0, 16.0), (16.0, 1.0, 1.0), (800.0, 800.0, 1200.0), (1.5, 1.0, 1.0), (0.3, 0.3, 0.3), (300.0, 300.0, 300.0),
       (1000000.0, 1000000.0, 3000000.0), (0.001, 0.001, 0.004), (250.0, 250.0, 1000.0), (1.0, 1.0, 1.4), (1.0, 1.0, 1.5),
       (7.0, 11.0, 13.0), (40.0, 20.0, 10.0)]


def configs(tier, seed):
    rnd = random.Random(seed)
    res = list(RES)
    if tier == "thorough":
        for _ in range(12):
            base = rnd.choice((0.01, 0.5, 1.0, 3.0, 40.0, 1000.0, 123456.0))
            res.append(tuple(base * rnd.choice((1, 1, 1.3, 2, 3, 4, 7, 8, 16)) for _ in range(3)))
    tcss = (1, 2, 16, 64) if tier == "quick" else (1, 2, 8, 32, 64, 256)
    mss = (None, 2) if tier == "quick" else (None, 1, 5)
    out = []
    oth = [(1, 1), (1000000000, 3), (100, 70), (7, 1000000000), (4096, 4096), (129, 2)]
    n = 0
    for ri, r in enumerate(res):
        for t in tcss:
            if tier == "quick" and t == 1 and ri % 5:
                continue      # target chunk size 1 is a known finding on every path: 4 representatives in the quick tier
            for ms in mss:
                for v in range(2 if tier == "quick" else 3):
                    n += 1
                    out.append(dict(harness="structure", res=list(r), tcs=t, max_scales=ms, sym_axis=(n + v) % 3,
                                    others=list(oth[(n * 7 + v) % len(oth)]), cost=2, wall=900, max_paths=20000))
    # one representative per listed known finding, so that each is re-confirmed (and replayed) in every run
    out.append(dict(harness="structure", res=[1.0, 4.0, 16.0], tcs=1, max_scales=None, sym_axis=0, others=[100, 70], cost=2, wall=900, max_paths=20000))
    out.append(dict(harness="structure", res=[800.0, 800.0, 1200.0], tcs=64, max_scales=None, sym_axis=2, others=[4096, 4096], cost=2, wall=900, max_paths=20000))
    out.append(dict(harness="structure", res=[1.0, 2.0, 16.0], tcs=16, max_scales=None, sym_axis=1, others=[4096, 4096], cost=2, wall=900, max_paths=20000))
    # symbolic base resolution: keys and unit choice for every resolution in a decade, power-of-two ratios between axes
    decades = [(10.0 ** k, 10.0 ** (k + 1)) for k in range(-3, 9)]     # from 1 pm (the finest unit) to 1 m
    ratios = [(1, 1, 1), (1, 2, 4), (4, 1, 1), (1, 1, 2), (8, 1, 2)]
    for i, (lo, hi) in enumerate(decades):
        for j, ra in enumerate(ratios):
            if tier == "quick" and (i + j) % 2:
                continue
            out.append(dict(harness="keys", lo=lo, hi=hi, ratio=list(ra), cost=3, wall=900, timeout_ms=60000))
    out.append(dict(harness="params", cost=1))
    out.append(dict(harness="json", cost=1))
    return out


class _Log:
    def __init__(self, q):
        self.q = q


def _mk_math(ctx):
    def log2(x):
        if isinstance(x, SQuot):
            return _Log(x)
        return real_math.log2(x)

    def ceil(x):
        if isinstance(x, _Log):
            a, t = x.q.a, x.q.b
            # ceil(log2(a/t)) = k  <=>  t*2^(k-1) < a <= t*2^k  (case split on k)
            for k in range(-12, 64):
                hi = (a.e * (1 << -k) <= t.e) if k < 0 else (a.e <= t.e * (1 << k))
                if ctx.decide(hi):
                    return k
            raise OutsideModel("size beyond 2^63 target chunks")
        return real_math.ceil(x)
    return types.SimpleNamespace(log2=log2, ceil=ceil, floor=real_math.floor, sqrt=real_math.sqrt)


def _is_pow2(n):
    return n >= 1 and n & (n - 1) == 0


def _big_pyramid(res, tcs):
    dp = load.mod("dyadic_pyramid")
    saved = dp.math
    dp.math = real_math
    try:
        info = dict(type="image", data_type="uint8", num_channels=1, scales=[dict(
            size=[10 ** 6] * 3, resolution=list(res), voxel_offset=[0, 0, 0], encoding="raw")])
        return dp.fill_scales_for_dyadic_pyramid(info, target_chunk_size=tcs)["scales"]
    finally:
        dp.math = saved


def _generator_asserts(res, tcs):
    """Declarative region helper: the generator raises AssertionError for this resolution/target (large volume)."""
    try:
        _big_pyramid(res, tcs)
    except AssertionError:
        return True
    return False


def _unsupported_transition(res, tcs):
    """Region helper: for a large volume the generator emits consecutive chunk sizes that the pyramid computation
    cannot assemble (new chunk not 1 or 2 downscaled old chunks along some axis)."""
    try:
        sc = _big_pyramid(res, tcs)
    except AssertionError:
        return False
    for a, b in zip(sc, sc[1:]):
        for osz, nsz, o, n in zip(a["chunk_sizes"][0], b["chunk_sizes"][0], a["size"], b["size"]):
            f = 1 if o == n else 2
            if osz % f or osz // f < 1 or nsz not in (osz // f, 2 * (osz // f)):
                return True
    return False


def _duplicate_keys(res, tcs):
    try:
        keys = [s["key"] for s in _big_pyramid(res, tcs)]
    except AssertionError:
        return False
    return len(set(keys)) != len(keys)


def H_structure(ctx, cfg):
    W = V.World()
    res, tcs, ms = cfg["res"], cfg["tcs"], cfg["max_scales"]
    dp = load.patch("dyadic_pyramid", math=_mk_math(ctx), np=W.npx, tqdm=V.NoTqdm)
    # one axis has a symbolic size (1..10^9), the two others take enumerated sizes (the joint case split over three
    # symbolic level counts is 30^3 paths per configuration)
    size = []
    others = list(cfg["others"])
    for d in range(3):
        if d == cfg["sym_axis"]:
            s_ = SInt.var(f"size{d}", "int")
            ctx.assume(z3.And(s_.e >= 1, s_.e <= 10 ** 9))
            size.append(s_)
        else:
            size.append(SInt.const(others.pop(0), "int"))
    ctx.input("size", [s.e for s in size])
    info = dict(type="image", data_type="uint8", num_channels=1, scales=[dict(
        size=list(size), resolution=list(res), voxel_offset=[0, 0, 0], encoding="raw")])
    from ..findings import regions_with_labels
    best = min(res)
    delays = [builtins.int(round(real_math.log2(r / best))) for r in res]
    for fid, expr, labels in regions_with_labels(PROPERTY, "structure"):
        ctx.region(fid, eval(expr, {"z3": z3, "cfg": cfg, "res": res, "tcs": tcs, "delays": delays, "max_scales": ms,
                                    "size": [s.e for s in size], "Or": z3.Or, "And": z3.And,
                                    "unsupported_transition": _unsupported_transition, "generator_asserts": _generator_asserts,
                                    "duplicate_keys": _duplicate_keys}), labels)
    try:
        dp.fill_scales_for_dyadic_pyramid(info, target_chunk_size=tcs, max_scales=ms)
    except AssertionError as e:
        ctx.fail("generator-raised-AssertionError", detail=f"res={res} target={tcs}")
        return
    scales = info["scales"]
    n = len(scales)
    E = builtins.int(real_math.log2(tcs))
    ctx.sample(dict(res=res, target=tcs, max_scales=ms, delays=delays, levels=n, keys=[s["key"] for s in scales],
                    chunks=[s["chunk_sizes"][0] for s in scales]))
    conds = []
    for l, sc in enumerate(scales):
        for a in range(3):
            k = max(0, l - delays[a])
            conds.append(sc["size"][a].e == (size[a].e + (1 << k) - 1) / (1 << k))
        ok_res = all(abs(sc["resolution"][a] - res[a] * (1 << max(0, l - delays[a]))) <= 1e-9 * sc["resolution"][a] for a in range(3))
        ctx.prove(ok_res, "resolution-multiplied-by-the-axis-factor", detail=f"level {l}: {sc['resolution']}")
        cs = sc["chunk_sizes"][0]
        ok_cs = all(_is_pow2(c) for c in cs) and abs(sum(c.bit_length() - 1 for c in cs) - 3 * E) <= 1
        ctx.prove(ok_cs, "chunk-sizes-are-powers-of-two-holding-about-target^3-voxels", detail=f"level {l}: {cs} target {tcs}")
        for leaf in (sc["key"], sc["encoding"]):
            ctx.prove(isinstance(leaf, str), "json-leaf-types")
        for leaf in list(cs) + list(sc["size"]):
            # plain integers (symbolic or not), never NumPy scalars: json.dumps refuses those
            ctx.prove(not isinstance(leaf, real_np.generic), "json-leaf-types", detail=f"level {l}: {type(leaf).__name__}")
    ctx.prove(z3.And(conds), "level-size-is-full-size-divided-by-the-axis-factor-rounded-up")
    keys = [s["key"] for s in scales]
    ctx.prove(len(set(keys)) == len(keys), "scale-keys-pairwise-distinct", detail=str(keys))
    if ms is None or n < ms:
        last = scales[-1]
        ctx.prove(z3.And([last["size"][a].e <= 2 * tcs for a in range(3)]), "last-scale-fits-in-two-target-chunks-per-axis",
                  detail=f"levels={n} delays={delays}")
    # every pair of consecutive scales must be admitted by the pyramid computation
    class _NP(type(W.npx)):
        def ndindex(self, *a):
            return iter(())

        def prod(self, *a, **k):
            return 0
    load.patch("dyadic_pyramid", np=_NP())
    info2 = copy.copy(info)
    for i in range(n - 1):
        try:
            dp.compute_dyadic_downscaling(info, i, types.SimpleNamespace(check_factors=lambda f: True),
                                          types.SimpleNamespace(scale_is_lossy=lambda k: False), None)
        except Exception as e:
            if type(e).__name__ in ("OutsideModel", "Inconclusive"):
                raise
            ctx.fail("consecutive-scales-rejected-by-the-pyramid-computation",
                     detail=f"{scales[i]['key']}->{scales[i + 1]['key']} chunks {scales[i]['chunk_sizes'][0]}->{scales[i + 1]['chunk_sizes'][0]}: {type(e).__name__}: {e}"[:300])
            return
    ctx.ok("all-scale-transitions-admitted") if n > 1 else ctx.ok("single-scale")


def H_keys(ctx, cfg):
    """Scale keys for a symbolic base resolution r in [lo, hi) (exact real) with power-of-two ratios between the axes:
    the keys of all levels are pairwise distinct and each key shows the level's smallest resolution rounded to the
    chosen unit."""
    from ..sarray import SRl
    from ..sstr import SDecimal, SStr, parse, sym_format
    W = V.World()
    r = z3.Real("r")
    from fractions import Fraction
    ctx.assume(z3.And(r >= z3.RealVal(str(Fraction(cfg["lo"]))), r < z3.RealVal(str(Fraction(cfg["hi"])))))
    ctx.input("r", r)
    ratio = cfg["ratio"]
    res = [SRl(r * a) for a in ratio]

    def log2(x):
        if isinstance(x, SRl):
            for c in sorted({Fraction(a, b) for a in ratio for b in ratio}):
                if ctx.decide(x.r == z3.RealVal(str(c))):
                    return real_math.log2(c)
            raise OutsideModel("resolution ratio not in the enumerated set")
        return real_math.log2(x)
    m = types.SimpleNamespace(log2=log2, ceil=real_math.ceil, floor=real_math.floor)
    load.patch("utils", format=sym_format)
    dp = load.patch("dyadic_pyramid", math=m, np=W.npx, tqdm=V.NoTqdm)
    info = dict(type="image", data_type="uint8", num_channels=1, scales=[dict(
        size=[4096, 4096, 4096], resolution=res, voxel_offset=[0, 0, 0], encoding="raw")])
    try:
        dp.fill_scales_for_dyadic_pyramid(info, target_chunk_size=64)
    except NotImplementedError:
        ctx.fail("no-unit-found-for-the-key", detail=f"decade [{cfg['lo']}, {cfg['hi']})")
        return
    scales = info["scales"]
    keys = [parse(sc["key"]) for sc in scales]
    if not all(len(k) == 2 and isinstance(k[0], SDecimal) and isinstance(k[1], str) for k in keys):
        ctx.fail("unexpected-key-structure", detail=str(keys[:2]))
        return
    units = {k[1] for k in keys}
    ctx.sample(dict(decade=[cfg["lo"], cfg["hi"]], ratio=ratio, levels=len(scales), unit=sorted(units)))
    ctx.prove(len(units) == 1, "one-unit-for-all-keys", detail=str(units))
    D = [k[0].D for k in keys]
    ctx.prove(z3.And([D[i] != D[j] for i in range(len(D)) for j in range(i + 1, len(D))]), "scale-keys-pairwise-distinct")
    utils = load.mod("utils")
    unit = next(iter(units))
    f = Fraction(utils.LENGTH_UNITS[unit])
    delays = [builtins.int(round(real_math.log2(a / min(ratio)))) for a in ratio]
    conds = []
    for l, d in enumerate(D):
        mn = min(a * (1 << max(0, l - dl)) for a, dl in zip(ratio, delays))
        x = r * z3.RealVal(str(Fraction(mn) * f))
        conds.append(z3.And(2 * (z3.ToReal(d) - x) <= 1, 2 * (x - z3.ToReal(d)) <= 1, d >= 1))
    ctx.prove(z3.And(conds), "key-is-the-smallest-resolution-of-the-level-rounded-to-the-unit-and-non-zero")


def H_params(ctx, cfg):
    """set_info_params x get_encoder: every (type, encoding, data_type) combination the generator emits is accepted."""
    bad, n = _params_bad()
    ctx.input("bad", bad)
    ctx.sample(dict(combinations=n))
    ctx.prove(not bad, "encoders-accept-what-set_info_params-produces", detail=str(bad[:3]))


def _params_bad():
    gsi = load.mod("scripts.generate_scales_info")
    ce = load.mod("chunk_encoding")
    bad = []
    n = 0
    for dt in ("uint8", "uint16", "uint32", "uint64", "float32"):
        for enc_in in (None, "raw", "compressed_segmentation", "jpeg"):
            for typ in (None, "image", "segmentation"):
                for pre_enc in (None, "raw", "compressed_segmentation"):
                    info = dict(data_type=dt, num_channels=1, scales=[dict(size=[4, 4, 4], resolution=[1, 1, 1], voxel_offset=[0, 0, 0])])
                    if pre_enc:
                        info["scales"][0]["encoding"] = pre_enc
                    gsi.set_info_params(info, dataset_type=typ, encoding=enc_in)
                    n += 1
                    sc = info["scales"][0]
                    expect_ok = not (sc["encoding"] == "jpeg" and info["data_type"] != "uint8") and not (
                        sc["encoding"] == "compressed_segmentation" and info["data_type"] not in ("uint32", "uint64"))
                    try:
                        ce.get_encoder(info, sc)
                        ok = True
                    except ce.InvalidInfoError:
                        ok = False
                    if ok != expect_ok or (dt in ("uint8", "uint16") and sc["encoding"] == "compressed_segmentation" and info["data_type"] != "uint32"):
                        bad.append([dt, enc_in, typ, pre_enc, info["data_type"], sc["encoding"], ok])
    return bad, n


def H_json(ctx, cfg):
    """generate_scales_info end to end on the model file system: the stored info is valid JSON equal to the generated dict."""
    W = V.World()
    gsi = W.script("generate_scales_info", open=W.env.open)
    load.patch("dyadic_pyramid", math=real_math)
    bad = []
    for i, (size, res, tcs) in enumerate((([100, 100, 100], [1.0, 1.0, 1.0], 64), ([1000, 300, 7], [800.0, 800.0, 1200.0], 16),
                                          ([5, 5, 5], [0.5, 0.5, 2.0], 2), ([2048, 2048, 100], [1000.0, 1000.0, 20000.0], 64),
                                          ([96, 80, 5], [4.0, 4.0, 160.0], 8), ([64, 64, 3], [1.0, 1.0, 100000.0], 64))):
        full = dict(type="image", data_type="uint8", num_channels=1, scales=[dict(size=size, resolution=res, voxel_offset=[0, 0, 0], encoding="raw")])
        url = f"/mfs/gen{i}"
        W.put_info(url, full, name="info_fullres.json")
        try:
            gsi.generate_scales_info(url + "/info_fullres.json", url, target_chunk_size=tcs)
        except AssertionError as e:
            bad.append([size, res, tcs, "AssertionError"])
            continue
        except TypeError as e:
            bad.append([size, res, tcs, f"TypeError: {e}"])
            continue
        stored = W.env.fs.files[url + "/info"]
        try:
            parsed = json.loads(bytes(stored.concrete()))
        except Exception as e:
            bad.append([size, res, tcs, f"invalid JSON: {e}"])
            continue
        ref = copy.deepcopy(full)
        gsi.set_info_params(ref)
        W.dp.fill_scales_for_dyadic_pyramid(ref, target_chunk_size=tcs)
        if parsed != json.loads(json.dumps(ref)):
            bad.append([size, res, tcs, "stored info differs from the generated dictionary"])
    ctx.input("bad", bad)
    ctx.sample("6 end-to-end runs of generate_scales_info (two with excess anisotropy)")
    ctx.prove(not bad, "stored-info-is-valid-json-of-the-generated-pyramid", detail=str(bad[:2]))


# --------------------------------------------------------------------- replay

def replay(cfg, cex):
    dp = load.mod("dyadic_pyramid")
    if cfg["harness"] == "keys":
        from fractions import Fraction
        rv = cex["inputs"]["r"]
        rv = float(Fraction(rv)) if "?" not in str(rv) else float(str(rv).rstrip("?"))
        res = [rv * a for a in cfg["ratio"]]
        info = dict(type="image", data_type="uint8", num_channels=1, scales=[dict(
            size=[4096, 4096, 4096], resolution=res, voxel_offset=[0, 0, 0], encoding="raw")])
        try:
            dp.fill_scales_for_dyadic_pyramid(info, target_chunk_size=64)
        except NotImplementedError as e:
            return True, f"no unit found for resolution {res}"
        keys = [s_["key"] for s_ in info["scales"]]
        if len(set(keys)) != len(keys):
            return True, f"duplicate keys {keys} for resolution {res}"
        if any(k.lstrip("0") == k[-2:] or k[:-2] in ("", "0") for k in keys):
            return True, f"zero key in {keys} for resolution {res}"
        return False, f"keys {keys} distinct"
    if cfg["harness"] == "json":
        # the same end-to-end runs on a real directory
        import os
        import tempfile
        gsi = load.mod("scripts.generate_scales_info")
        for size, res, tcs, why in cex["inputs"].get("bad") or []:
            with tempfile.TemporaryDirectory() as td:
                full = dict(type="image", data_type="uint8", num_channels=1, scales=[dict(size=size, resolution=res, voxel_offset=[0, 0, 0], encoding="raw")])
                with open(os.path.join(td, "info_fullres.json"), "w") as f:
                    json.dump(full, f)
                try:
                    gsi.generate_scales_info(os.path.join(td, "info_fullres.json"), td, target_chunk_size=tcs)
                    with open(os.path.join(td, "info")) as f:
                        parsed = json.load(f)
                except Exception as e:
                    return True, f"generate-scales-info for size {size}, resolution {res}, target chunk size {tcs}: {type(e).__name__}: {e}"
                ref = copy.deepcopy(full)
                gsi.set_info_params(ref)
                dp.fill_scales_for_dyadic_pyramid(ref, target_chunk_size=tcs)
                if parsed != json.loads(json.dumps(ref)):
                    return True, f"stored info differs from the generated dictionary for size {size}, resolution {res}"
        return False, "generate-scales-info writes valid JSON on the real code"
    if cfg["harness"] == "params":
        bad, _ = _params_bad()          # the enumeration again, on the real modules
        return bool(bad), f"(data type, --encoding, --type, existing encoding, resulting data type, resulting encoding, accepted): {bad[:3]}"
    if cfg["harness"] != "structure":
        return bool(cex["inputs"].get("bad")), str(cex["inputs"].get("bad"))[:300]
    size = cex["inputs"]["size"]
    res, tcs, ms = cfg["res"], cfg["tcs"], cfg["max_scales"]
    info = dict(type="image", data_type="uint8", num_channels=1, scales=[dict(
        size=list(size), resolution=list(res), voxel_offset=[0, 0, 0], encoding="raw")])
    try:
        dp.fill_scales_for_dyadic_pyramid(info, target_chunk_size=tcs, max_scales=ms)
    except AssertionError:
        return True, f"generator raised AssertionError for size {size}, resolution {res}, target chunk {tcs}"
    scales = info["scales"]
    try:
        json.dumps(info)
    except TypeError as e:
        return True, f"generated info for size {size}, resolution {res}, target chunk {tcs} is not valid JSON material: {e}"
    best = min(res)
    delays = [builtins.int(round(real_math.log2(r / best))) for r in res]
    probs = []
    keys = [s["key"] for s in scales]
    if len(set(keys)) != len(keys):
        probs.append(f"duplicate keys {keys}")
    for l, sc in enumerate(scales):
        for a in range(3):
            k = max(0, l - delays[a])
            if sc["size"][a] != -(-size[a] // (1 << k)):
                probs.append(f"level {l} size {sc['size']}")
        cs = sc["chunk_sizes"][0]
        if not all(_is_pow2(c) for c in cs) or abs(sum(c.bit_length() - 1 for c in cs) - 3 * builtins.int(real_math.log2(tcs))) > 1:
            probs.append(f"level {l} chunk sizes {cs}")
    if (ms is None or len(scales) < ms) and len(scales) > 1 and any(s > 2 * tcs for s in scales[-1]["size"]):
        probs.append(f"last scale {scales[-1]['size']} does not fit in two chunks of {tcs} per axis ({len(scales)} levels, delays {delays})")
    import types as _t
    for i in range(len(scales) - 1):
        try:
            class R:
                def scale_is_lossy(self, k):
                    return False

                def read_chunk(self, *a):
                    raise StopIteration
            class D:
                def check_factors(self, f):
                    return True
            dp.compute_dyadic_downscaling(info, i, D(), R(), None)
        except StopIteration:
            continue
        except ValueError as e:
            probs.append(f"compute-scales rejects {scales[i]['key']}->{scales[i + 1]['key']}: {e}")
        except Exception as e:
            probs.append(f"compute-scales fails on {scales[i]['key']}->{scales[i + 1]['key']}: {type(e).__name__}: {e}")
    return bool(probs), "; ".join(probs[:3]) or "generated info is consistent on the real code"
