"""C15 - slice stacks are assembled with the requested anatomical orientation."""
import builtins
import itertools
import random
import types

import numpy as real_np
import z3

from .. import load
from ..findings import regions_for
from ..sarray import SArray
from . import _vol as V

PROPERTY = "C15"
MODULES = ["scripts.slices_to_precomputed", "utils", "data_types", "precomputed_io"]
FUNCTIONS = ["scripts.slices_to_precomputed.slices_to_raw_chunks", "scripts.slices_to_precomputed.convert_slices_in_directory",
             "utils.permute", "utils.invert_permutation", "data_types.get_chunk_dtype_transformer", "precomputed_io.PrecomputedIO.write_chunk"]
STUBS = ["skimage.io.imread -> symbolic 2-D (or RGB) pixel array per file name; skimage.io.concatenate_images -> stack along a new "
         "first axis, ValueError for an empty sequence (as the real function)", "directory listing -> model file system",
         "model file system, NPProxy, tqdm/trange no-op"]
ASSUMPTIONS = ["slice files are listed in lexicographic order (sorted(iterdir()), as the command documents)"]
EXPLANATION = ("Every pixel of every input slice is symbolic. For each of the 48 orientation codes the real conversion runs on the "
               "model file system, the volume is read back and the solver proves out[c,z,y,x] equal to the pixel the "
               "orientation code designates (axes permuted and reversed as the help text defines), every chunk written once.")
BOUNDS = {"quick": "all 48 codes x 2 RAS sizes (non-cubic, up to 3x2x4) with chunk sizes making slice counts <, = and not divisible "
                   "by the chunk depth; 1-2 channel directories and RGB slices; uint8/uint16; 4 configurations through main(argv): slice "
                   "directories listed in an adversarial order (names whose lexicographic, numeric and creation orders differ), lower-case "
                   "orientation code, conversion run twice",
          "thorough": "all 48 codes x 6 sizes/chunk sizes x 6 channel layouts (1-2 directories, grey and RGB mixed), and all 48 codes through main(argv)"}
OUTSIDE = ["TIFF/PNG decoding (scikit-image)", "pixel type conversion beyond uint8/uint16 identity (C11)"]

CODES = ["".join(p) for t in itertools.product("LR", "AP", "IS") for p in itertools.permutations(t)]
AXIS = {"R": 0, "L": 0, "A": 1, "P": 1, "S": 2, "I": 2}
POS = {"R": True, "A": True, "S": True, "L": False, "P": False, "I": False}


def configs(tier, seed):
    out = []
    rnd = random.Random(seed)
    sizes = [((3, 2, 4), (2, 2, 3)), ((2, 3, 1), (2, 2, 2)), ((1, 4, 3), (4, 4, 4)), ((4, 1, 2), (2, 1, 2)), ((2, 2, 2), (1, 1, 1)),
             ((3, 3, 2), (2, 2, 1))]
    for i, code in enumerate(CODES):
        picks = sizes if tier == "thorough" else [sizes[i % 3], sizes[3 + i % 3]]
        for j, (size, cs) in enumerate(picks):
            mode = ("grey", "two_dirs", "rgb")[(i + j) % 3] if tier == "quick" else ("grey", "two_dirs", "rgb", "two_rgb", "rgb_grey", "grey_rgb")[(i + j) % 6]
            out.append(dict(harness="orient", code=code, size=list(size), cs=list(cs), mode=mode,
                            dtype=("uint8", "uint16")[(i + j) % 2], cost=1))
    # through main(argv): directory listing, lexicographic slice order, lower-case orientation code; conversion run twice
    # several multi-channel directories: channels of all directories in order
    for code, size, cs, mode in (("RAS", (2, 2, 3), (2, 2, 2), "two_rgb"), ("ASR", (2, 3, 2), (2, 2, 2), "rgb_grey"), ("IPL", (3, 2, 2), (2, 2, 2), "grey_rgb"),
                                 ("PLS", (2, 2, 2), (2, 2, 2), "two_rgb")):
        out.append(dict(harness="orient", code=code, size=list(size), cs=list(cs), mode=mode, dtype="uint8", cost=2))
    for code, size, cs, mode in (("RAS", (2, 2, 5), (2, 2, 2), "grey"), ("LIP", (3, 4, 2), (2, 2, 2), "two_dirs"), ("SPL", (4, 2, 2), (2, 2, 2), "rgb"),
                                 ("AIR", (2, 3, 4), (2, 2, 3), "grey")):
        out.append(dict(harness="orient", code=code, size=list(size), cs=list(cs), mode=mode, dtype="uint8", via_main=True, repeat=True, cost=2))
    if tier == "thorough":
        for i, code in enumerate(CODES):
            out.append(dict(harness="orient", code=code, size=[2, 3, 4], cs=[2, 2, 3], mode=("grey", "rgb", "two_dirs")[i % 3], dtype="uint16",
                            via_main=True, repeat=bool(i % 2), cost=2))
    return out


_BANDS = {"grey": [1], "two_dirs": [1, 1], "rgb": [3], "two_rgb": [3, 3], "rgb_grey": [3, 1], "grey_rgb": [1, 3]}


def _expected_index(code, size, x, y, z):
    """(col, row, slice) of the input pixel that voxel (x,y,z) in RAS order must come from."""
    coord = (x, y, z)
    idx = []
    for letter in code:
        r = AXIS[letter]
        idx.append(coord[r] if POS[letter] else size[r] - 1 - coord[r])
    return tuple(idx)


def H_orient(ctx, cfg):
    W = V.World()
    code, size, cs, mode, dtype = cfg["code"], cfg["size"], cfg["cs"], cfg["mode"], cfg["dtype"]
    perm = tuple(AXIS[a] for a in code)
    in_size = tuple(size[p] for p in perm)          # (columns, rows, slices)
    bands = _BANDS[mode]                      # channels per slice directory
    ndirs = len(bands)
    C = sum(bands)
    chan_src = [(d, b if bands[d] > 1 else None) for d in range(ndirs) for b in range(bands[d])]
    images = {}
    lists = []
    allpix = []
    via_main = cfg.get("via_main", False)
    for d in range(ndirs):
        names = []
        for s in range(in_size[2]):
            # through the command line the slices are found by listing the directory: names whose lexicographic order is the
            # slice order but neither the creation order nor the numeric order ("b10" < "b9")
            name = f"/mfs/in{d}/slice{s:03d}.tif" if not via_main else f"/mfs/in{d}/{'cba'[s % 3] if s < 3 else 'd' + str(13 - s)}.tif"
            shape = (in_size[1], in_size[0]) + ((3,) if bands[d] == 3 else ())
            img = SArray.fresh(shape, dtype, f"px{d}_{s}")
            images[name] = img
            allpix.append([x.e for x in img.a.ravel()])
            names.append(name)
        lists.append(names)
    ctx.input("pixels", allpix)
    for fid, expr in regions_for(PROPERTY, "orient"):
        ctx.region(fid, builtins.bool(eval(expr, {"cfg": cfg, "code": code})))

    def imread(fn, **kw):
        return images[str(fn)]

    def concatenate_images(it):
        arrs = [a[real_np.newaxis, ...] for a in it]
        if not arrs:
            raise ValueError("Image dimensions must agree.")
        from ..sarray import h_concatenate
        return h_concatenate(arrs)
    sk = types.SimpleNamespace(io=types.SimpleNamespace(imread=imread, concatenate_images=concatenate_images))
    mod = W.script("slices_to_precomputed", np=W.npx, skimage=sk, tqdm=V.NoTqdm, trange=V.trange, Path=W.env.pathlib.Path)
    info = V.make_info(dtype, C, size, cs)
    url = "/mfs/out"
    W.put_info(url, info)
    if via_main:
        from ..sbytes import SBytes
        for names in lists:
            lexi = sorted(names)
            # the file created first is the lexicographically last one
            for nm in reversed(lexi):
                W.env.fs.mkdir_p(nm.rsplit("/", 1)[0])
                W.env.fs.files[nm] = SBytes(b"")
            # the stack order the documentation promises: lexicographic order of the names
        images = {nm: img for names in lists for nm, img in zip(sorted(names), [images[n] for n in names])}
        lists = [sorted(names) for names in lists]
        load.patch("utils", init_logging_for_cmdline=lambda: None)
    for attempt in range(2 if cfg.get("repeat") else 1):
        try:
            if via_main:
                try:
                    rc = mod.main(["slices-to-precomputed"] + [f"/mfs/in{d}" for d in range(ndirs)] + [url, "--input-orientation", code.lower()])
                except SystemExit as e:
                    rc = e.code
                ctx.prove(rc == 0, "exit-status-0", detail=str(rc))
                if rc != 0:
                    return
            else:
                mod.slices_to_raw_chunks(lists, url, code, options={})
        except Exception as e:
            if type(e).__name__ in ("OutsideModel", "Inconclusive"):
                raise
            ctx.fail("conversion-raised", detail=f"run {attempt}: {type(e).__name__}: {e}", exc=repr(e)[:200])
            return
        W.finish()
    out, problems, _ = W.read_scale(url, info, 0, {})
    ctx.sample(dict(code=code, ras_size=size, chunk=cs, mode=mode))
    if problems:
        ctx.fail("chunk-read-back", detail="; ".join(problems[:3]))
        return
    X, Y, Z = size
    conds = []
    for c in range(C):
        for z in range(Z):
            for y in range(Y):
                for x in range(X):
                    col, row, sl = _expected_index(code, size, x, y, z)
                    d_, b_ = chan_src[c]
                    src = images[lists[d_][sl]].a[row, col] if b_ is None else images[lists[d_][sl]].a[row, col, b_]
                    got = out[c, z, y, x]
                    if got is None:
                        ctx.fail("voxel-not-written", detail=str((c, z, y, x)))
                        return
                    conds.append(V.eq_elems(got, src))
    ctx.prove(z3.And(conds), "voxel(x,y,z)-is-the-pixel-designated-by-the-orientation-code")


# --------------------------------------------------------------------- replay

def replay(cfg, cex):
    import os
    import sys
    import tempfile
    code, size, cs, mode, dtype = cfg["code"], cfg["size"], cfg["cs"], cfg["mode"], cfg["dtype"]
    perm = tuple(AXIS[a] for a in code)
    in_size = tuple(size[p] for p in perm)
    bands = _BANDS[mode]
    ndirs = len(bands)
    C = sum(bands)
    chan_src = [(d, b if bands[d] > 1 else None) for d in range(ndirs) for b in range(bands[d])]
    pix = cex["inputs"]["pixels"]
    mod = load.mod("scripts.slices_to_precomputed")
    pio = load.mod("precomputed_io")
    acc_mod = load.mod("accessor")
    images = {}
    lists = []
    k = 0
    for d in range(ndirs):
        names = []
        for s in range(in_size[2]):
            shape = (in_size[1], in_size[0]) + ((3,) if bands[d] == 3 else ())
            images[f"in{d}/slice{s:03d}"] = real_np.array(pix[k], dtype=real_np.uint64).astype(dtype).reshape(shape)
            names.append(f"in{d}/slice{s:03d}")
            k += 1
        lists.append(names)
    import skimage.io
    orig = skimage.io.imread
    via_main = cfg.get("via_main", False)
    skimage.io.imread = lambda fn, **kw: images[str(fn)] if not via_main else by_path[os.path.realpath(str(fn))]
    by_path = {}
    try:
        with tempfile.TemporaryDirectory() as td, tempfile.TemporaryDirectory() as tin:
            info = V.make_info(dtype, C, size, cs)
            acc = acc_mod.get_accessor_for_url(td, {})
            pio.get_IO_for_new_dataset(info, acc)
            try:
                if via_main:
                    # real directories with empty files named as in the harness (lexicographic order = slice order)
                    for d in range(ndirs):
                        os.makedirs(os.path.join(tin, f"in{d}"))
                        fnames = sorted(f"{'cba'[s_ % 3] if s_ < 3 else 'd' + str(13 - s_)}.tif" for s_ in range(in_size[2]))
                        for s_, fname in reversed(list(enumerate(fnames))):
                            full = os.path.join(tin, f"in{d}", fname)
                            open(full, "wb").close()
                            by_path[os.path.realpath(full)] = images[lists[d][s_]]
                    for attempt in range(2 if cfg.get("repeat") else 1):
                        try:
                            rc = mod.main(["slices-to-precomputed"] + [os.path.join(tin, f"in{d}") for d in range(ndirs)] + [td, "--input-orientation", code.lower()])
                        except SystemExit as e:
                            rc = e.code
                        if rc != 0:
                            return True, f"orientation {code}: slices-to-precomputed (run {attempt + 1}) exited with {rc}"
                else:
                    mod.slices_to_raw_chunks(lists, td, code, options={})
            except Exception as e:
                return True, f"orientation {code}, size {size}, chunks {cs}: conversion raised {type(e).__name__}: {e}"
            r = pio.get_IO_for_existing_dataset(acc_mod.get_accessor_for_url(td, {}))
            X, Y, Z = size
            for x0 in range(0, X, cs[0]):
                for y0 in range(0, Y, cs[1]):
                    for z0 in range(0, Z, cs[2]):
                        cc = (x0, min(x0 + cs[0], X), y0, min(y0 + cs[1], Y), z0, min(z0 + cs[2], Z))
                        try:
                            ch = r.read_chunk("full", cc)
                        except Exception as e:
                            return True, f"chunk {cc} unreadable: {type(e).__name__}: {e}"
                        for c in range(C):
                            for z in range(cc[4], cc[5]):
                                for y in range(cc[2], cc[3]):
                                    for x in range(cc[0], cc[1]):
                                        col, row, sl = _expected_index(code, size, x, y, z)
                                        d_, b_ = chan_src[c]
                                        src = images[lists[d_][sl]][row, col] if b_ is None else images[lists[d_][sl]][row, col, b_]
                                        if ch[c, z - cc[4], y - cc[2], x - cc[0]] != src:
                                            return True, f"orientation {code}: voxel {(x, y, z)} channel {c} = {ch[c, z - cc[4], y - cc[2], x - cc[0]]}, expected pixel (col {col}, row {row}, slice {sl}) = {src}"
    finally:
        skimage.io.imread = orig
    return False, "orientation correct on the real code"
