"""C14 - reading over HTTP gives the same bytes as reading the files locally."""
import builtins
import copy
import itertools
import json

import z3

from .. import load
from ..findings import regions_for
from ..modelfs import Env
from ..modelhttp import ModelServer, make_requests
from ..sbytes import SBytes
from ..values import SInt
from . import _shard as S

PROPERTY = "C14"
MODULES = ["http_accessor", "sharded_http_accessor", "sharded_base", "accessor"]
FUNCTIONS = ["http_accessor.HttpAccessor.__init__/fetch_file/fetch_chunk/file_exists/chunk_relative_url",
             "sharded_http_accessor.ShardedHttpAccessor.__init__/fetch_chunk", "sharded_http_accessor.HttpShardedScale.get_shard",
             "sharded_http_accessor.HttpShard.__init__/file_exists/read_bytes/fetch_cmc_chunk",
             "sharded_base.ShardCMC.populate_minishard_dict", "sharded_base.ReadableMiniShardCMC", "accessor.get_accessor_for_url (http scheme)"]
STUBS = ["requests.Session -> model static-file server over the model file system: get/head, status codes, Range: bytes=a-b, "
         "raise_for_status as in requests; name.gz served under name with transparent content-encoding; one request "
         "per run may misbehave: 404, 403, 401, 410, 429, 500, 502, 503, 504, short / over-long / whole-file reply to a Range request, ConnectionError",
         "model file system, symbolic byte strings, zlib framing model (as C04)"]
ASSUMPTIONS = ["a short reply to a non-Range request is detected by the transport (Content-Length), hence only modelled for Range requests"]
EXPLANATION = ("A dataset with symbolic chunk payloads is written by the real local writers; the model server serves those files; "
               "every info file and chunk fetched through the HTTP accessors is proved byte-identical to what the local "
               "accessor returns; URLs are dispatched to the sharded reader iff the info declares sharding; with one "
               "solver-chosen request misbehaving, the call must raise (DataAccessError for plain datasets).")
BOUNDS = {"quick": "plain flat datasets (gzip on/off) with 3 chunks; sharded 2x2x2 and 3x2x1 grids with bit triples (0,0,0),(1,1,0),(1,0,1),"
                   "(2,2,0), raw+gzip, .shard files and legacy .index/.data pairs; every chunk position; 4 URL spellings; every "
                   "request index x 10 fault kinds",
          "thorough": "grids 2x2x2, 3x2x1, 3x3x2, 4x1x2, 2x1x1 x 7 bit triples x 4 index/data encoding pairs x {.shard, legacy .index/.data}, every fault at every request of every chunk read"}
OUTSIDE = ["real sockets, TLS, redirects, content-encoding negotiation", "servers that corrupt bytes without changing lengths"]

FAULTS = [404, 403, 500, 503, "conn", "short", "long", "ignore-range", 502, 410]
URL = "http://h.test/data/ds"


def configs(tier, seed):
    out = []
    for gz in (False, True):
        out.append(dict(harness="plain", gzip=gz, cost=2))
        out.append(dict(harness="plain_fault", gzip=gz, cost=3))
    trips = [(0, 0, 0), (1, 1, 0), (1, 0, 1), (2, 2, 0)] + ([(0, 2, 1), (2, 1, 0), (1, 2, 2)] if tier == "thorough" else [])
    encs = [("raw", "raw"), ("gzip", "gzip"), ("raw", "gzip"), ("gzip", "raw")]
    n = 0
    for grid in ((2, 2, 2), (3, 2, 1)) + (((3, 3, 2), (4, 1, 2), (2, 1, 1)) if tier == "thorough" else ()):
        for t in trips:
            n += 1
            if tier == "thorough":
                # every encoding pair, both file layouts
                for enc in encs:
                    for legacy in (False, True):
                        out.append(dict(harness="sharded", grid=list(grid), m=t[0], s=t[1], p=t[2], idx_enc=enc[0], data_enc=enc[1],
                                        legacy=legacy, cost=4, wall=1200))
                        if legacy == bool(n % 2):
                            out.append(dict(harness="sharded_fault", grid=list(grid), m=t[0], s=t[1], p=t[2], idx_enc=enc[0],
                                            data_enc=enc[1], legacy=legacy, cost=8, wall=1500))
                continue
            enc = encs[n % 4]
            out.append(dict(harness="sharded", grid=list(grid), m=t[0], s=t[1], p=t[2], idx_enc=enc[0], data_enc=enc[1],
                            legacy=bool(n % 2), cost=4, wall=1200))
            if n % 2 == 0:
                out.append(dict(harness="sharded_fault", grid=list(grid), m=t[0], s=t[1], p=t[2], idx_enc=enc[0], data_enc=enc[1],
                                legacy=bool(n % 4 == 0), cost=8, wall=1500))
    out.append(dict(harness="dispatch", cost=1))
    out.append(dict(harness="two_scales", cost=3))
    return out


def _world():
    env = Env()
    sb, sfa = S.setup(env)
    fa = load.mod("file_accessor")
    server = ModelServer(env.fs, "/mfs/ds", URL)
    rq = make_requests(server)
    ha = load.patch("http_accessor", requests=rq)
    sha = load.patch("sharded_http_accessor", requests=rq, np=load.mod("sharded_base").np)
    return env, server, fa, sfa, ha, sha


CHUNKS = [(0, 2, 0, 2, 0, 1), (2, 4, 0, 2, 0, 1), (0, 2, 2, 3, 0, 1)]


def _plain_dataset(ctx, env, fa, gz):
    info = dict(type="image", data_type="uint8", num_channels=1, scales=[dict(
        key="k0", size=[4, 3, 1], chunk_sizes=[[2, 2, 1]], encoding="raw", resolution=[1, 1, 1], voxel_offset=[0, 0, 0])])
    w = fa.FileAccessor("/mfs/ds", flat=True, gzip=gz)
    w.store_file("info", json.dumps(info).encode(), mime_type="application/json")
    payloads = {}
    for i, cc in enumerate(CHUNKS):
        pl = S.payload(f"c{i}", 2 + i)
        payloads[cc] = pl
        w.store_chunk(pl, "k0", cc)
    ctx.input("payloads", [list(p.bs) for p in payloads.values()])
    return info, payloads


def _eq(ctx, got, want, label):
    g = got if isinstance(got, SBytes) else SBytes(got)
    w = want if isinstance(want, SBytes) else SBytes(want)
    if len(g) != len(w):
        ctx.prove(False, label, detail=f"length {len(g)} vs {len(w)}")
        return
    r = (g == w)
    ctx.prove(r if isinstance(r, bool) else r.e, label)


def H_plain(ctx, cfg):
    env, server, fa, sfa, ha, sha = _world()
    info, payloads = _plain_dataset(ctx, env, fa, cfg["gzip"])
    local = fa.FileAccessor("/mfs/ds", flat=True, gzip=cfg["gzip"])
    acc_mod = load.mod("accessor")
    for spelling in (URL, URL + "/", "precomputed://" + URL, "precomputed://" + URL + "/"):
        acc = acc_mod.get_accessor_for_url(spelling)
        ctx.prove(type(acc).__name__ == "HttpAccessor", "plain-dataset-dispatched-to-plain-http-reader", detail=type(acc).__name__)
        _eq(ctx, acc.fetch_file("info"), local.fetch_file("info"), "info-over-http-equals-local")
        for cc in CHUNKS:
            _eq(ctx, acc.fetch_chunk("k0", cc), local.fetch_chunk("k0", cc), "chunk-over-http-equals-local")
            _eq(ctx, acc.fetch_file("info"), local.fetch_file("info"), "info-after-chunk-reads-equals-local")
        ctx.prove(acc.file_exists("info") is True and acc.file_exists("nothing") is False, "file_exists-matches-local")
        try:
            acc.fetch_chunk("k0", (2, 4, 2, 3, 0, 1))
        except acc_mod.DataAccessError:
            ctx.ok("missing-chunk-DataAccessError")
        else:
            ctx.fail("missing-chunk-returned-data")
    ctx.sample(dict(gzip=cfg["gzip"], requests=server.requests, first=server.log[0][:2]))


def H_plain_fault(ctx, cfg):
    env, server, fa, sfa, ha, sha = _world()
    info, payloads = _plain_dataset(ctx, env, fa, cfg["gzip"])
    acc_mod = load.mod("accessor")
    acc = ha.HttpAccessor(URL)
    ops = [("fetch_file", lambda: acc.fetch_file("info")), ("fetch_chunk", lambda: acc.fetch_chunk("k0", CHUNKS[1])),
           ("file_exists", lambda: acc.file_exists("info"))]
    oi = SInt.var("op", "int")
    ctx.assume(z3.And(oi.e >= 0, oi.e < len(ops)))
    name, call = ops[oi.__index__()]
    fi = SInt.var("fault", "int")
    kinds = [404, 403, 500, 503, "conn", 502, 504, 401, 429]
    ctx.assume(z3.And(fi.e >= 0, fi.e < len(kinds)))
    kind = kinds[fi.__index__()]
    pi = SInt.var("persistent", "int")
    ctx.assume(z3.And(pi.e >= 0, pi.e <= 1))
    persistent = bool(pi.__index__())
    server.plan = {"from": (server.requests, kind)} if persistent else {server.requests: kind}
    ctx.input("case", [name, str(kind), persistent])
    ctx.sample(dict(op=name, fault=kind, persistent=persistent))
    local = fa.FileAccessor("/mfs/ds", flat=True, gzip=cfg["gzip"])
    try:
        r = call()
    except acc_mod.DataAccessError:
        ctx.ok("fault-reported-as-DataAccessError")
        return
    except Exception as e:
        if type(e).__name__ in ("OutsideModel", "Inconclusive"):
            raise
        ctx.fail("fault-surfaced-as-other-exception", detail=f"{name} with {kind}: {type(e).__name__}: {e}")
        return
    # returned normally (e.g. after an internal retry): it must be the right answer, never the error page
    if name == "file_exists":
        ctx.prove((r is False) if (kind == 404 and persistent) else (r is True or (kind == 404 and r is False)),
                  "probe-result-consistent-with-server", detail=str(r))
        return
    want = local.fetch_file("info") if name == "fetch_file" else local.fetch_chunk("k0", CHUNKS[1])
    _eq(ctx, r, want, "data-returned-despite-fault-equals-local-bytes")


def _sharded_dataset(ctx, env, sfa, cfg):
    grid = cfg["grid"]
    info = S.make_info(grid, 1, cfg["m"], cfg["s"], cfg["p"], cfg["idx_enc"], cfg["data_enc"])
    fa = load.mod("file_accessor")
    fa.FileAccessor("/mfs/ds", gzip=False).store_file("info", json.dumps(info).encode(), mime_type="application/json")
    acc = sfa.ShardedFileAccessor(S.BASE, strategy="in memory")
    acc.info = copy.deepcopy(info)
    coords = [(x, x + 1, y, y + 1, z, z + 1) for x in range(grid[0]) for y in range(grid[1]) for z in range(grid[2])]
    payloads = {}
    for i, cc in enumerate(coords):
        if i == len(coords) - 1:
            continue        # one position is never stored
        pl = S.payload(f"c{i}", 1 + i % 3)
        payloads[cc] = pl
        acc.store_chunk(pl, S.KEY, cc)
    acc.close()
    env.run_atexit()
    ctx.input("payloads", [list(p.bs) for p in payloads.values()])
    if cfg["legacy"]:
        hdr = 16 * (1 << cfg["m"])
        for p in list(S.shard_files(env.fs)):
            d = env.fs.files.pop(p)
            env.fs.files[p[:-6] + ".index"] = d[:hdr]
            env.fs.files[p[:-6] + ".data"] = d[hdr:]
    return info, coords, payloads


def H_sharded(ctx, cfg):
    env, server, fa, sfa, ha, sha = _world()
    info, coords, payloads = _sharded_dataset(ctx, env, sfa, cfg)
    acc_mod = load.mod("accessor")
    local = sfa.ShardedFileAccessor(S.BASE)
    local.info = copy.deepcopy(info)
    for spelling in (URL, "precomputed://" + URL + "/"):
        acc = acc_mod.get_accessor_for_url(spelling)
        ctx.prove(type(acc).__name__ == "ShardedHttpAccessor", "sharded-dataset-dispatched-to-sharded-http-reader", detail=type(acc).__name__)
        _eq(ctx, acc.fetch_file("info"), json.dumps(info).encode(), "info-over-http-equals-local")
        for cc in coords:
            try:
                want = local.fetch_chunk(S.KEY, cc)
            except Exception:
                want = None
            try:
                got = acc.fetch_chunk(S.KEY, cc)
            except Exception as e:
                if type(e).__name__ in ("OutsideModel", "Inconclusive"):
                    raise
                if want is None or len(want) == 0:
                    ctx.ok("unstored-chunk-raises-over-http-too")
                else:
                    ctx.fail("chunk-readable-locally-but-not-over-http", detail=f"{cc}: {type(e).__name__}: {e}")
                continue
            if want is None:
                ctx.prove(len(got) == 0, "unstored-chunk-never-reported-as-data", detail=str(cc))
                continue
            _eq(ctx, got, want, "chunk-over-http-equals-local")
            if cc in payloads:
                _eq(ctx, got, payloads[cc], "chunk-over-http-equals-stored-payload")
            # whole-file reads interleaved with chunk reads on the same accessor
            _eq(ctx, acc.fetch_file("info"), json.dumps(info).encode(), "info-after-chunk-reads-equals-local")
    ctx.sample(dict(grid=cfg["grid"], bits=[cfg["m"], cfg["s"], cfg["p"]], legacy=cfg["legacy"], requests=server.requests))


def H_sharded_fault(ctx, cfg):
    env, server, fa, sfa, ha, sha = _world()
    info, coords, payloads = _sharded_dataset(ctx, env, sfa, cfg)
    # count the requests of a clean read of one chunk (fresh accessor each time)
    ci = SInt.var("chunk", "int")
    ctx.assume(z3.And(ci.e >= 0, ci.e < len(coords) - 1))
    cc = coords[ci.__index__()]
    case = [list(cc), None, None]
    ctx.input("case", case)
    acc = sha.ShardedHttpAccessor(URL)
    n0 = server.requests
    clean = acc.fetch_chunk(S.KEY, cc)
    n_req = server.requests - n0
    # probes of .shard/.index/.data, the shard index, one minishard index per non-empty minishard, the chunk itself
    ctx.prove(n_req <= 3 + 1 + (1 << cfg["m"]) + 1, "requests-per-fetch-bounded", detail=str(n_req))
    ri = SInt.var("request", "int")
    ctx.assume(z3.And(ri.e >= 0, ri.e < n_req + 1))        # +1: the info request of a fresh accessor
    fi = SInt.var("fault", "int")
    ctx.assume(z3.And(fi.e >= 0, fi.e < len(FAULTS)))
    r, kind = ri.__index__(), FAULTS[fi.__index__()]
    case[1], case[2] = r, str(kind)
    ctx.sample(dict(chunk=list(cc), faulty_request=r, fault=kind, requests=n_req))
    server.plan = {server.requests + r: kind}
    try:
        acc2 = sha.ShardedHttpAccessor(URL)
        got = acc2.fetch_chunk(S.KEY, cc)
    except Exception as e:
        if type(e).__name__ in ("OutsideModel", "Inconclusive"):
            raise
        ctx.ok("fault-raises-" + type(e).__name__)
        return
    # returned normally: must be exactly the right bytes (e.g. a fault on a request that was not needed)
    _eq(ctx, got, payloads[cc], "faulty-server-never-yields-wrong-bytes")


def H_two_scales(ctx, cfg):
    """Two sharded scales whose chunks live in shards with the same numbers, read alternately through one HTTP
    accessor and through a second accessor opened later in the same process."""
    env, server, fa, sfa, ha, sha = _world()
    info = S.make_info((2, 2, 1), 1, 1, 1, 0)
    sc2 = copy.deepcopy(info["scales"][0])
    sc2["key"] = "s1"
    sc2["size"] = [2, 1, 1]
    info["scales"].append(sc2)
    fa.FileAccessor("/mfs/ds", gzip=False).store_file("info", json.dumps(info).encode(), mime_type="application/json")
    acc = sfa.ShardedFileAccessor(S.BASE, strategy="in memory")
    acc.info = copy.deepcopy(info)
    stored = {}
    n = 0
    for key, grid in (("s0", (2, 2, 1)), ("s1", (2, 1, 1))):
        for x in range(grid[0]):
            for y in range(grid[1]):
                cc = (x, x + 1, y, y + 1, 0, 1)
                pl = S.payload(f"{key}_{n}", 1 + n % 2)
                n += 1
                stored[(key, cc)] = pl
                acc.store_chunk(pl, key, cc)
    acc.close()
    env.run_atexit()
    ctx.input("payloads", [list(p.bs) for p in stored.values()])
    a1 = sha.ShardedHttpAccessor(URL)
    order = sorted(stored, key=lambda k: (k[1], k[0]))          # alternate between the scales
    for key, cc in order:
        _eq(ctx, a1.fetch_chunk(key, cc), stored[(key, cc)], "alternating-scales-same-accessor")
    a2 = sha.ShardedHttpAccessor(URL + "/")
    for key, cc in reversed(order):
        _eq(ctx, a2.fetch_chunk(key, cc), stored[(key, cc)], "second-accessor-in-the-same-process")
    ctx.sample(dict(scales=2, chunks=len(stored), requests=server.requests))


def H_dispatch(ctx, cfg):
    env, server, fa, sfa, ha, sha = _world()
    acc_mod = load.mod("accessor")
    w = fa.FileAccessor("/mfs/ds", gzip=False)
    sh = {"@type": "neuroglancer_uint64_sharded_v1", "minishard_bits": 0, "shard_bits": 0, "preshift_bits": 0, "hash": "identity",
          "minishard_index_encoding": "raw", "data_encoding": "raw"}
    base = dict(key="a", size=[1, 1, 1], chunk_sizes=[[1, 1, 1]], encoding="raw", resolution=[1, 1, 1], voxel_offset=[0, 0, 0])
    cases = [([dict(base)], False), ([dict(base, sharding=sh)], True), ([dict(base, sharding=sh), dict(base, key="b")], False),
             ([dict(base, sharding=sh), dict(base, key="b", sharding=sh)], True), ([], False)]
    bad = []
    for scales, want in cases:
        info = dict(type="image", data_type="uint8", num_channels=1, scales=scales)
        w.store_file("info", json.dumps(info).encode(), mime_type="application/json", overwrite=True)
        for sp in (URL, URL + "/", "precomputed://" + URL):
            try:
                acc = acc_mod.get_accessor_for_url(sp)
            except Exception as e:
                bad.append([len(scales), want, sp, type(e).__name__])
                continue
            if (type(acc).__name__ == "ShardedHttpAccessor") != want:
                bad.append([len(scales), want, sp, type(acc).__name__])
    ctx.input("bad", bad)
    ctx.sample("5 infos x 3 URL spellings")
    ctx.prove(not bad, "sharded-reader-exactly-when-all-scales-declare-sharding", detail=str(bad[:3]))


# --------------------------------------------------------------------- replay (real files + real HTTP server on localhost)

def _serve(directory):
    import functools
    import http.server
    import threading

    class H(http.server.SimpleHTTPRequestHandler):
        fault = None

        def log_message(self, *a):
            pass

        def do_GET(self):
            rng = self.headers.get("Range")
            path = self.translate_path(self.path)
            import os
            k = None
            if H.fault and H.fault[0] == 0:
                k = str(H.fault[1])
                if not (len(H.fault) > 2 and H.fault[2]):
                    H.fault = None
                if k.isdigit():
                    self.send_error(int(k))
                    return
                if k == "conn":
                    self.connection.close()
                    return
            elif H.fault:
                H.fault = (H.fault[0] - 1,) + tuple(H.fault[1:])
            if not os.path.isfile(path):
                self.send_error(404)
                return
            data = open(path, "rb").read()
            if rng:
                a, b = rng.split("=")[1].split("-")
                if int(a) >= len(data) and not (int(a) == 0 and len(data) == 0):
                    self.send_error(416)
                    return
                whole = data
                data = data[int(a):int(b) + 1]
                status = 206
                # misbehaving replies to a Range request (same as the model server)
                if k == "short" and len(data):
                    data = data[:-1]
                elif k == "long":
                    data = data + b"\0"
                elif k == "ignore-range":
                    data, status = whole, 200
                self.send_response(status)
                if status == 206:
                    self.send_header("Content-Range", f"bytes {int(a)}-{int(a) + len(data) - 1}/{len(whole)}")
            else:
                self.send_response(200)
            self.send_header("Content-Length", str(len(data)))
            self.end_headers()
            self.wfile.write(data)

        def do_HEAD(self):
            if H.fault and H.fault[0] == 0:
                k = str(H.fault[1])
                if not (len(H.fault) > 2 and H.fault[2]):
                    H.fault = None
                if k.isdigit():
                    self.send_error(int(k))
                    return
                if k == "conn":
                    self.connection.close()
                    return
            elif H.fault:
                H.fault = (H.fault[0] - 1,) + tuple(H.fault[1:])      # the model counts HEAD probes as requests too
            return http.server.SimpleHTTPRequestHandler.do_HEAD(self)
    srv = http.server.ThreadingHTTPServer(("127.0.0.1", 0), functools.partial(H, directory=directory))
    t = threading.Thread(target=srv.serve_forever, daemon=True)
    t.start()
    return srv, H


def replay(cfg, cex):
    import os
    import tempfile
    h = cfg["harness"]
    inp = cex["inputs"]
    acc_mod = load.mod("accessor")
    if h == "dispatch":
        sh = {"@type": "neuroglancer_uint64_sharded_v1", "minishard_bits": 0, "shard_bits": 0, "preshift_bits": 0, "hash": "identity",
              "minishard_index_encoding": "raw", "data_encoding": "raw"}
        base = dict(key="a", size=[1, 1, 1], chunk_sizes=[[1, 1, 1]], encoding="raw", resolution=[1, 1, 1], voxel_offset=[0, 0, 0])
        cases = [([dict(base)], False), ([dict(base, sharding=sh)], True), ([dict(base, sharding=sh), dict(base, key="b")], False),
                 ([dict(base, sharding=sh), dict(base, key="b", sharding=sh)], True), ([], False)]
        with tempfile.TemporaryDirectory() as td:
            os.makedirs(os.path.join(td, "ds"))
            srv, H = _serve(td)
            try:
                url = f"http://127.0.0.1:{srv.server_address[1]}/ds"
                for scales, want in cases:
                    with open(os.path.join(td, "ds", "info"), "w") as f:
                        json.dump(dict(type="image", data_type="uint8", num_channels=1, scales=scales), f)
                    for sp in (url, url + "/", "precomputed://" + url):
                        try:
                            acc = acc_mod.get_accessor_for_url(sp)
                        except Exception as e:
                            return True, f"{len(scales)} scale(s), sharded={want}, URL spelling {sp.replace(url, '<url>')}: {type(e).__name__}: {e}"
                        if (type(acc).__name__ == "ShardedHttpAccessor") != want:
                            return True, f"{len(scales)} scale(s), all sharded={want}, URL spelling {sp.replace(url, '<url>')}: dispatched to {type(acc).__name__}"
            finally:
                srv.shutdown()
        return False, "dispatch follows the info on the real code"
    if h == "two_scales":
        sfa = load.mod("sharded_file_accessor")
        sha = load.mod("sharded_http_accessor")
        info = S.make_info((2, 2, 1), 1, 1, 1, 0)
        sc2 = copy.deepcopy(info["scales"][0])
        sc2["key"] = "s1"
        sc2["size"] = [2, 1, 1]
        info["scales"].append(sc2)
        with tempfile.TemporaryDirectory() as td:
            ds = os.path.join(td, "ds")
            acc = sfa.ShardedFileAccessor(ds, strategy="in memory")
            acc.info = copy.deepcopy(info)
            stored = {}
            pls = [bytes(p) for p in inp["payloads"]]
            n = 0
            for key, grid in (("s0", (2, 2, 1)), ("s1", (2, 1, 1))):
                for x in range(grid[0]):
                    for y in range(grid[1]):
                        cc = (x, x + 1, y, y + 1, 0, 1)
                        stored[(key, cc)] = pls[n]
                        acc.store_chunk(pls[n], key, cc)
                        n += 1
            acc.close()
            with open(os.path.join(ds, "info"), "w") as f:
                json.dump(info, f)
            srv, H = _serve(td)
            try:
                url = f"http://127.0.0.1:{srv.server_address[1]}/ds"
                for a in (sha.ShardedHttpAccessor(url), sha.ShardedHttpAccessor(url + "/")):
                    for key, cc in sorted(stored, key=lambda k: (k[1], k[0])):
                        try:
                            got = a.fetch_chunk(key, cc)
                        except Exception as e:
                            return True, f"scale {key} chunk {cc}: {type(e).__name__}: {e}"
                        if got != stored[(key, cc)]:
                            return True, f"scale {key} chunk {cc}: HTTP returned {got!r}, stored {stored[(key, cc)]!r}"
            finally:
                srv.shutdown()
        return False, "alternating reads of two scales agree with the stored bytes"
    if h in ("plain", "plain_fault"):
        fa = load.mod("file_accessor")
        ha = load.mod("http_accessor")
        with tempfile.TemporaryDirectory() as td:
            ds = os.path.join(td, "ds")
            w = fa.FileAccessor(ds, flat=True, gzip=False)     # served as plain static files
            w.store_file("info", b'{"scales": []}', mime_type="application/json")
            pls = [bytes(p) for p in inp["payloads"]]
            for cc, pl in zip(CHUNKS, pls):
                w.store_chunk(pl, "k0", cc)
            srv, H = _serve(td)
            try:
                url = f"http://127.0.0.1:{srv.server_address[1]}/ds"
                acc = ha.HttpAccessor(url)
                if h == "plain":
                    for cc, pl in zip(CHUNKS, pls):
                        try:
                            got = acc.fetch_chunk("k0", cc)
                        except Exception as e:
                            return True, f"chunk {cc} ({pl[:8].hex()}...) served correctly but fetch_chunk raised {type(e).__name__}: {e}"
                        if got != pl:
                            return True, f"chunk {cc} over HTTP ({got[:16]!r}, {len(got)} bytes) differs from the stored bytes ({pl[:16]!r}, {len(pl)} bytes)"
                    return acc.fetch_file("info") != b'{"scales": []}', "info over HTTP"
                name, kind, persistent = inp["case"]
                H.fault = (0, kind, persistent)
                try:
                    if name == "fetch_file":
                        got, want = acc.fetch_file("info"), b'{"scales": []}'
                    elif name == "fetch_chunk":
                        got, want = acc.fetch_chunk("k0", CHUNKS[1]), pls[1]
                    else:
                        got = acc.file_exists("info")
                        want = False if (kind == "404" and persistent) else got
                except acc_mod.DataAccessError:
                    return False, "DataAccessError (allowed)"
                except Exception as e:
                    return True, f"{name} with fault {kind}: {type(e).__name__}: {e}"
                return got != want, f"{name} during a {'persistent ' if persistent else ''}{kind} fault returned {got!r} instead of raising DataAccessError"
            finally:
                srv.shutdown()
    sfa = load.mod("sharded_file_accessor")
    sha = load.mod("sharded_http_accessor")
    grid = cfg["grid"]
    info = S.make_info(grid, 1, cfg["m"], cfg["s"], cfg["p"], cfg["idx_enc"], cfg["data_enc"])
    with tempfile.TemporaryDirectory() as td:
        ds = os.path.join(td, "ds")
        acc = sfa.ShardedFileAccessor(ds, strategy="in memory")
        acc.info = copy.deepcopy(info)
        coords = [(x, x + 1, y, y + 1, z, z + 1) for x in range(grid[0]) for y in range(grid[1]) for z in range(grid[2])]
        payloads = {}
        for i, (cc, pl) in enumerate(zip(coords[:-1], inp["payloads"])):
            payloads[cc] = bytes(pl)
            acc.store_chunk(bytes(pl), S.KEY, cc)
        acc.close()
        with open(os.path.join(ds, "info"), "w") as f:
            json.dump(info, f)
        if cfg["legacy"]:
            hdr = 16 * (1 << cfg["m"])
            sd = os.path.join(ds, S.KEY)
            for name in os.listdir(sd):
                d = open(os.path.join(sd, name), "rb").read()
                os.remove(os.path.join(sd, name))
                open(os.path.join(sd, name[:-6] + ".index"), "wb").write(d[:hdr])
                open(os.path.join(sd, name[:-6] + ".data"), "wb").write(d[hdr:])
        srv, H = _serve(td)
        try:
            url = f"http://127.0.0.1:{srv.server_address[1]}/ds"
            if h == "sharded":
                for sp in (url, "precomputed://" + url + "/"):
                    try:
                        a = acc_mod.get_accessor_for_url(sp)
                    except Exception as e:
                        return True, f"get_accessor_for_url({sp!r}) raised {type(e).__name__}: {e}"
                    if type(a).__name__ != "ShardedHttpAccessor":
                        return True, f"dispatched to {type(a).__name__}"
                    local = sfa.ShardedFileAccessor(ds)
                    local.info = copy.deepcopy(info)
                    for cc, pl in payloads.items():
                        try:
                            got = a.fetch_chunk(S.KEY, cc)
                        except Exception as e:
                            return True, f"chunk {cc} readable locally but over HTTP: {type(e).__name__}: {e}"
                        if got != pl:
                            return True, f"chunk {cc}: HTTP returned {got!r}, stored {pl!r}"
                        try:
                            loc = local.fetch_chunk(S.KEY, cc)
                        except Exception as e:
                            return True, f"chunk {cc}: read over HTTP ({got!r}) but the local accessor raises {type(e).__name__}: {e} ({'legacy .index/.data' if cfg['legacy'] else '.shard'} files)"
                        if bytes(loc) != got:
                            return True, f"chunk {cc}: HTTP returned {got!r}, the local accessor {bytes(loc)!r} ({'legacy .index/.data' if cfg['legacy'] else '.shard'} files)"
                        with open(os.path.join(ds, "info"), "rb") as f:
                            want_info = f.read()
                        got_info = a.fetch_file("info")
                        if got_info != want_info:
                            return True, f"info read after chunk {cc} differs from the local file: got {got_info[:40]!r} ({len(got_info)} bytes), expected {len(want_info)} bytes"
                return False, "HTTP reads equal local reads"
            cc, r, kind = inp["case"]
            cc = tuple(cc)
            H.fault = (r, kind)
            try:
                a = sha.ShardedHttpAccessor(url)
                got = a.fetch_chunk(S.KEY, cc)
            except Exception:
                return False, "raises"
            return got != payloads[cc], f"fault {kind} on request {r}: returned {got!r} instead of {payloads[cc]!r}"
        finally:
            srv.shutdown()
