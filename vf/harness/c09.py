"""C09 - chunk identifiers (compressed Morton code) and shard routing."""
import builtins
import math

import numpy as real_np
import z3

from .. import load
from ..core import SBool
from ..findings import regions_for
from ..sarray import NPProxy
from ..values import SBV, SInt, W, sym_int, smax

PROPERTY = "C09"
MODULES = ["sharded_base"]
FUNCTIONS = ["sharded_base.ShardVolumeSpec.compressed_morton_code", "sharded_base.ShardVolumeSpec.get_cmc",
             "sharded_base.ShardVolumeSpec.__init__ (concrete, contract validation)",
             "sharded_base.ShardSpec.__init__/shard_mask/minishard_mask/preshift_mask",
             "sharded_base.CMCReadWrite.get_shard_key/get_minishard_key/_hash",
             "sharded_base.ShardCMC.__init__ (shard file name)"]
STUBS = ["np -> NPProxy (np.uint64 on symbolic ints: range check + truncation)",
         "int -> symbolic-aware int (isinstance accepts symbolic ints; int(a/b) = exact truncation, |a| < 2**53 obligation)",
         "ShardVolumeSpec state constructed directly: grid_sizes symbolic, num_bits constrained by "
         "2**(n-1) < g <= 2**n (contract of math.ceil(math.log2(g)), validated concretely by harness 'init')"]
ASSUMPTIONS = ["identity hash only (the only one the tool accepts)",
               "float rounding inside math.log2/ceil is only exercised concretely (harness 'init')"]
EXPLANATION = ("Grid sizes, chunk positions, identifiers and the three bit counts are symbolic; the solver proves "
               "equality with an independent spec encoding of the compressed Morton code and of the shard/minishard "
               "bit fields per bit-count class (forking over num_bits).")
BOUNDS = {
    "quick": "grid sizes symbolic: every bit-count class (nx,ny,nz) in 0..5 (all grids up to 32 chunks per axis), plus 12 "
             "classes up to 21 bits per axis (6 fixed extremes, 6 drawn with VERIF_SEED; stated as sampled); positions symbolic in [-2**40, 2**40]; chunk size E in {1,3,64}; "
             "(preshift, minishard, shard) symbolic in [0,70]^3; shard file names for shard_bits<=6 exhaustively (case split over keys)",
    "thorough": "every bit-count class in 0..21 per axis, forked (complete for grids < 2**21 chunks per axis); shard file names for shard_bits<=10",
}
OUTSIDE = ["grids with more than 2**21 chunks on an axis", "non-identity hash functions",
           "ShardVolumeSpec.__init__ float arithmetic beyond the enumerated sizes (harness 'init')"]


def configs(tier, seed):
    import random
    rnd = random.Random(seed)
    out = []
    if tier == "quick":
        for nx in range(0, 6):
            out.append(dict(harness="morton", nx=nx, G=5, cs=(1, 3, 64)[nx % 3], cost=3, wall=600, max_paths=100000))
        big = [(21, 21, 21), (21, 0, 0), (0, 21, 21), (20, 21, 1), (6, 6, 6), (1, 7, 13)]
        big += [tuple(rnd.randint(0, 21) for _ in range(3)) for _ in range(6)]
        for i, (nx, ny, nz) in enumerate(big):
            out.append(dict(harness="morton", nx=nx, ny=ny, nz=nz, G=21, cs=(1, 3, 64)[i % 3], cost=1, wall=600))
        # a dataset with another grid used earlier in the same process
        out.append(dict(harness="morton", nx=2, ny=0, nz=0, G=5, cs=1, prior=[100, 100, 100], cost=2, wall=600))
        out.append(dict(harness="morton", nx=1, ny=3, nz=2, G=5, cs=3, prior=[7, 2, 9], cost=2, wall=600))
    else:
        out.append(dict(harness="morton", nx=2, ny=0, nz=0, G=5, cs=1, prior=[100, 100, 100], cost=2, wall=600))
        out.append(dict(harness="morton", nx=1, ny=3, nz=2, G=5, cs=3, prior=[7, 2, 9], cost=2, wall=600))
        for nx in range(0, 22):
            for cs in ((1,) if nx % 4 else (1, 3, 64)):
                out.append(dict(harness="morton", nx=nx, G=21, cs=cs, cost=3, wall=3000, max_paths=100000))
    out.append(dict(harness="routing", cost=2))
    for s in range(0, 7 if tier == "quick" else 11):
        out.append(dict(harness="filename", shard_bits=s, cost=1 + s // 4, max_paths=5000))
    out.append(dict(harness="init", max_size=300 if tier == "quick" else 4096, cost=2, may_be_vacuous=False))
    return out


def _mods():
    sb = load.patch("sharded_base", np=NPProxy(), int=sym_int)
    return sb


def spec_morton(nbits, pos):
    """Compressed Morton code from the Neuroglancer sharded-format text: for bit i = 0, 1, ...
    and for each of x, y, z in turn, append bit i of that coordinate if i < bits[dim]."""
    code = z3.BitVecVal(0, 64)
    j = 0
    for i in range(max(nbits) if nbits else 0):
        for d in range(3):
            if i < nbits[d]:
                bit = z3.LShR(pos[d], i) & 1
                if j < 64:
                    code = code | (bit << j)
                j += 1
    return code, j


def H_morton(ctx, cfg):
    sb = _mods()
    G, cs = cfg["G"], cfg["cs"]
    g = [SInt.var(f"g{d}", "bv", G + 1) for d in range(3)]
    n = [SInt.var(f"n{d}", "bv", 6) for d in range(3)]
    for d in range(3):
        ctx.assume(z3.And(g[d].e >= 1, g[d].e <= (1 << G)))
        ctx.assume(z3.And(n[d].e >= 0, n[d].e <= G))
        # contract of math.ceil(math.log2(g)):  2**(n-1) < g <= 2**n
        ctx.assume(z3.And([z3.Implies(n[d].e == k, z3.And(g[d].e <= (1 << k), g[d].e > ((1 << k) >> 1) if k else True))
                           for k in range(G + 1)]))
    ctx.assume(n[0].e == cfg["nx"])
    if "ny" in cfg:
        ctx.assume(z3.And(n[1].e == cfg["ny"], n[2].e == cfg["nz"]))
    spec = sb.ShardVolumeSpec.__new__(sb.ShardVolumeSpec)
    spec.chunk_sizes = [cs, cs, cs]
    spec.sizes = None
    spec.grid_sizes = g
    spec.num_bits = n
    sb.max = smax if False else builtins.max
    lim = 1 << 40
    mins = [SInt.var(f"min{d}", "bv", 41) for d in range(3)]
    for v in mins:
        ctx.assume(z3.And(v.e >= -lim, v.e <= lim))
    ctx.input("grid", [x.e for x in g])
    ctx.input("mins", [x.e for x in mins])
    for fid, expr in regions_for(PROPERTY, "morton"):
        ctx.region(fid, eval(expr, {"z3": z3, "g": [x.e for x in g], "mins": [x.e for x in mins], "cs": cs,
                                    "Or": z3.Or, "And": z3.And}))
    coords = (mins[0], mins[0] + cs, mins[1], mins[1] + cs, mins[2], mins[2] + cs)
    valid = z3.And([z3.And(mins[d].e >= 0, z3.SRem(mins[d].e, z3.BitVecVal(cs, W)) == 0,
                           mins[d].e < g[d].e * cs) for d in range(3)])
    if cfg.get("prior"):
        # another dataset with another grid was used earlier in the same process (one accessor per scale / per dataset):
        # nothing of it may carry over
        other = sb.ShardVolumeSpec([cs, cs, cs], [cs * k for k in cfg["prior"]])
        try:
            other.get_cmc(coords)
        except sb.ShardedIOError:
            pass
    try:
        code = spec.get_cmc(coords)
    except sb.ShardedIOError:
        ctx.prove(z3.Not(valid), "rejected-only-if-invalid")
        return
    nb = [x.__index__() for x in n]       # concrete on this path (the loop bound forced it)
    pos64 = [z3.Extract(63, 0, (mins[d] // cs).e) for d in range(3)]
    sp, total = spec_morton(nb, pos64)
    if not isinstance(code, SBV):
        code = SBV.const(builtins.int(code), real_np.uint64)
    ctx.sample(dict(num_bits=nb, chunk_size=cs))
    ctx.prove(valid, "accepted-only-if-on-grid")
    ctx.prove(z3.Implies(valid, code.e == sp), "id-equals-spec-morton-code")
    if total < 64:
        ctx.prove(z3.Implies(valid, z3.ULT(code.e, z3.BitVecVal(1 << total, 64))), "id-below-2^total-bits")
    # injectivity: a second arbitrary valid position
    q = [SInt.var(f"q{d}", "bv", G + 1) for d in range(3)]
    for d in range(3):
        ctx.assume(z3.And(q[d].e >= 0, q[d].e < g[d].e))
    ctx.input("q", [x.e for x in q])
    code2 = spec.compressed_morton_code(q)
    if not isinstance(code2, SBV):
        code2 = SBV.const(builtins.int(code2), real_np.uint64)
    same = z3.And([q[d].e * cs == mins[d].e for d in range(3)])
    ctx.prove(z3.Implies(z3.And(valid, z3.Not(same)), code.e != code2.e), "distinct-positions-distinct-ids")


def H_routing(ctx, cfg):
    sb = _mods()
    p, m, s = (SInt.var(k, "bv", 8) for k in "pms")
    for v in (p, m, s):
        ctx.assume(z3.And(v.e >= 0, v.e <= 70))
    cmc = SBV.var("cmc", real_np.uint64)
    ctx.input("pms", [p.e, m.e, s.e])
    ctx.input("cmc", cmc.e)
    spec = sb.ShardSpec(m, s, "identity", "raw", "raw", p)

    class RW(sb.CMCReadWrite):
        def __init__(self, shard_spec):
            self.shard_spec = shard_spec
    rw = RW(spec)
    shard = rw.get_shard_key(cmc)
    mini = rw.get_minishard_key(cmc)
    p64, m64, s64 = (z3.Extract(63, 0, v.e) for v in (p, m, s))
    ones = z3.BitVecVal((1 << 64) - 1, 64)
    hashed = z3.If(z3.UGE(p64, 64), z3.BitVecVal(0, 64), z3.LShR(cmc.e, p64))

    def low(x, k):   # x mod 2**k
        return z3.If(z3.UGE(k, 64), x, x & ~(ones << k))
    spec_mini = low(hashed, m64)
    spec_shard = low(z3.If(z3.UGE(m64, 64), z3.BitVecVal(0, 64), z3.LShR(hashed, m64)), s64)
    ctx.sample("symbolic (preshift, minishard, shard) in [0,70]^3, symbolic 64-bit identifier")
    ctx.prove(mini.e == spec_mini, "minishard-number-equals-spec-bit-field")
    ctx.prove(shard.e == spec_shard, "shard-number-equals-spec-bit-field")


def H_filename(ctx, cfg):
    sb = _mods()
    s = cfg["shard_bits"]
    key = SBV.var("key", real_np.uint64)
    ctx.assume(z3.ULT(key.e, z3.BitVecVal(1 << s, 64)))
    ctx.input("key", key.e)
    spec = sb.ShardSpec(1, s, "identity", "raw", "raw", 0)

    class S(sb.ShardCMC):
        def file_exists(self, p):
            return False
    sh = S(key, spec)
    k = key.__index__()
    want = format(k, "x").rjust(-(-s // 4), "0")
    ctx.sample(dict(shard_bits=s, key=k, name=sh.shard_key_str))
    ctx.prove(sh.shard_key_str == want, "shard-file-name-is-zero-padded-lowercase-hex")


def H_init(ctx, cfg):
    """Concrete validation of the contract assumed for ShardVolumeSpec.__init__ (not a solver claim)."""
    sb = load.mod("sharded_base")
    bad = None
    n = 0
    for cs in (1, 2, 3, 7, 64):
        for size in list(range(1, cfg["max_size"] + 1)) + [2 ** k + d for k in range(9, 27) for d in (-1, 0, 1)]:
            spec = sb.ShardVolumeSpec([cs] * 3, [size, 1, max(1, size // 2)])
            g = -(-size // cs)
            g2 = -(-max(1, size // 2) // cs)
            n += 1
            if spec.grid_sizes != [g, 1, g2] or spec.num_bits != [(g - 1).bit_length(), 0, (g2 - 1).bit_length()]:
                bad = (cs, size, spec.grid_sizes, spec.num_bits)
                break
    ctx.input("case", list(bad[:2]) if bad else None)
    ctx.sample(dict(concrete_cases=n))
    ctx.prove(bad is None, "init-grid-and-bit-counts-match-contract", detail=str(bad))


def replay(cfg, cex):
    sb = load.mod("sharded_base")
    h = cfg["harness"]
    inp = cex["inputs"]
    if h == "morton":
        def s64(v):
            return v - (1 << W) if v >= 1 << (W - 1) else v
        g = [s64(v) for v in inp["grid"]]
        mins = [s64(v) for v in inp["mins"]]
        cs = cfg["cs"]
        spec = sb.ShardVolumeSpec([cs] * 3, [x * cs for x in g])
        assert spec.grid_sizes == g
        valid = all(m >= 0 and m % cs == 0 and m // cs < gg for m, gg in zip(mins, g))
        coords = (mins[0], mins[0] + cs, mins[1], mins[1] + cs, mins[2], mins[2] + cs)
        if cfg.get("prior"):
            try:
                sb.ShardVolumeSpec([cs] * 3, [cs * k for k in cfg["prior"]]).get_cmc(coords)
            except sb.ShardedIOError:
                pass
        try:
            code = builtins.int(spec.get_cmc(coords))
        except sb.ShardedIOError as e:
            return valid, f"valid position {mins} rejected: {e}" if valid else "invalid position correctly rejected"
        if not valid:
            return True, f"position {mins} outside grid {g} (chunk {cs}) accepted with id {code}"
        nb = [(x - 1).bit_length() for x in g]
        want, j, = 0, 0
        for i in range(max(nb)):
            for d in range(3):
                if i < nb[d]:
                    want |= ((mins[d] // cs >> i) & 1) << j
                    j += 1
        if code != want:
            return True, f"id {code} != spec {want} for grid {g} pos {mins}"
        if code >= 1 << j:
            return True, f"id {code} >= 2^{j}"
        if "q" in inp:
            q = [s64(v) for v in inp["q"]]
            if [x * cs for x in q] != mins and builtins.int(spec.compressed_morton_code(q)) == code:
                return True, f"positions {q} and {mins} share id {code}"
        return False, "no violation on the real code"
    if h == "routing":
        p, m, s = [v if v < (1 << 127) else v - (1 << W) for v in inp["pms"]]
        cmc = inp["cmc"]
        spec = sb.ShardSpec(m, s, "identity", "raw", "raw", p)

        class RW(sb.CMCReadWrite):
            def __init__(self, shard_spec):
                self.shard_spec = shard_spec
        rw = RW(spec)
        hashed = cmc >> p
        want_m = hashed & ((1 << m) - 1)
        want_s = (hashed >> m) & ((1 << s) - 1)
        got_s, got_m = builtins.int(rw.get_shard_key(real_np.uint64(cmc))), builtins.int(rw.get_minishard_key(real_np.uint64(cmc)))
        ok = (got_s, got_m) != (want_s, want_m)
        return ok, f"(p,m,s)={(p, m, s)} id={cmc}: shard {got_s} (spec {want_s}) minishard {got_m} (spec {want_m})"
    if h == "filename":
        s = cfg["shard_bits"]
        spec = sb.ShardSpec(1, s, "identity", "raw", "raw", 0)

        class S(sb.ShardCMC):
            def file_exists(self, p):
                return False
        k = inp["key"]
        got = S(real_np.uint64(k), spec).shard_key_str
        want = format(k, "x").rjust(-(-s // 4), "0")
        return got != want, f"name {got!r} spec {want!r}"
    if h == "init":
        cs, size = inp["case"]
        spec = sb.ShardVolumeSpec([cs] * 3, [size, 1, max(1, size // 2)])
        g = -(-size // cs)
        return spec.grid_sizes[0] != g or spec.num_bits[0] != (g - 1).bit_length(), f"{spec.grid_sizes} {spec.num_bits}"
    return False, "unknown harness"
