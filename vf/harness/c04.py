"""C04 - sharded output is readable by a reader that only follows the sharded-format specification."""
import builtins
import itertools
import random
import re

import numpy as real_np
import z3

from .. import load
from ..findings import regions_for
from ..modelfs import Env
from ..oracles import shard as spec
from ..sbytes import SBytes
from . import _shard as S

PROPERTY = "C04"
MODULES = ["sharded_file_accessor", "sharded_base"]
FUNCTIONS = ["sharded_file_accessor.ShardedFileAccessor.store_chunk/close/get_volume_shard_spec",
             "sharded_file_accessor.ShardedScale.get_shard/close", "sharded_file_accessor.Shard.__init__/store_cmc_chunk/close",
             "sharded_file_accessor.MiniShard.store_cmc_chunk/append/can_be_appended/flush_buffer/close/next_cmc/offset",
             "sharded_file_accessor.InMemByteArray/OnDiskByteArray/OnDiskBytesDict",
             "sharded_base.ShardedScaleBase.store_cmc_chunk/store_chunk", "sharded_base.ShardSpec (masks, encoders)",
             "sharded_base.CMCReadWrite.get_shard_key/get_minishard_key", "sharded_base.ShardCMC.__init__",
             "sharded_base.ShardVolumeSpec.__init__/get_cmc/compressed_morton_code"]
STUBS = ["model file system (pathlib, open, TemporaryDirectory, uuid4), atexit captured",
         "bytearray/bytes -> symbolic byte strings; struct -> StructProxy; np -> NPProxy (np.append/reshape/tobytes on symbolic uint64)",
         "zlib.compress/decompress -> invertible framing (magic + payload + check bytes); foreign data is rejected",
         "dict lookups with symbolic identifiers degrade to linear probing with solver-decided equality"]
ASSUMPTIONS = ["identity hash", "chunk identifiers are identifiers of grid positions (position -> identifier is C09's subject; "
               "the accessor-level entry is exercised with enumerated positions in the full-grid runs)"]
EXPLANATION = ("k chunk identifiers are symbolic 64-bit terms (arbitrary distinct grid positions), payload bytes symbolic; the "
               "real writer runs and closes; a reader written from sharded.md then locates each chunk (shard file name, "
               "minishard slot, delta-decoded index) and the solver proves payload equality and the structural rules "
               "for every placement on the path. Harness 'append_step' runs one MiniShard.append from an arbitrary state "
               "(previous identifier, new identifier and offset symbolic over all 64-bit values): the index gains exactly the "
               "identifier delta, the offset entry and the size as three uint64 values.")
BOUNDS = {"quick": "grids up to 3x4x2 (incl. non powers of two and single-chunk axes); (minishard,shard,preshift) from {0,1,2}^3 "
                   "(subset), (2,2,0) on 3x4x2, (0,0,64), (1,30,40), (0,70,0), (1,4,0), (0,8,1), (1,5,0); raw and gzip index/data encodings; k<=2 symbolic "
                   "chunks with payloads of 0..2 bytes; full grids in raster and reversed order; both buffering strategies; one append with 64-bit symbolic identifiers",
          "thorough": "k=3 symbolic chunks, all 27 bit triples on two grids"}
OUTSIDE = ["real zlib streams", "minishard_bits > 12 (the shard index alone would need gigabytes)", "grids beyond 3x4x2"]


def _cfg(h, grid, msp, enc=("raw", "raw"), **kw):
    d = dict(harness=h, grid=list(grid), m=msp[0], s=msp[1], p=msp[2], idx_enc=enc[0], data_enc=enc[1], cost=1,
             wall=1200, max_paths=60000)
    d.update(kw)
    return d


def configs(tier, seed):
    rnd = random.Random(seed)
    out = []
    trip = [(0, 0, 0), (1, 1, 0), (1, 0, 1), (0, 2, 1), (2, 1, 0), (1, 2, 2), (2, 2, 0), (2, 0, 2)]
    grids = [(3, 4, 2), (2, 2, 2), (1, 1, 1), (2, 1, 3), (4, 1, 1)]
    n = 0
    for g in grids:
        for t in (trip if tier == "quick" else list(itertools.product((0, 1, 2), repeat=3))):
            n += 1
            if tier == "quick" and g != (3, 4, 2) and n % 3:
                continue
            enc = [("raw", "raw"), ("gzip", "raw"), ("raw", "gzip"), ("gzip", "gzip")][n % 4]
            strat = "on disk" if n % 2 else "in memory"
            out.append(_cfg("symbolic", g, t, enc, k=min(2, g[0] * g[1] * g[2]), lens=[(n % 3), 2 - (n % 2)], strategy=strat, cost=6))
            if g[0] * g[1] * g[2] <= 24 and (tier == "thorough" or n % 2 == 0):
                out.append(_cfg("fullgrid", g, t, enc, order=("raster", "reversed")[n % 2], strategy=strat, cost=3))
    for t in ((0, 0, 64), (1, 30, 40), (0, 70, 0), (3, 0, 0), (1, 4, 0), (0, 8, 1), (1, 5, 0)):
        out.append(_cfg("symbolic", (3, 4, 2), t, k=2, lens=[1, 2], strategy="in memory", cost=4))
        out.append(_cfg("fullgrid", (3, 4, 2), t, order="reversed", strategy="in memory", cost=3))
    out.append(_cfg("symbolic", (2, 2, 1), (1, 1, 0), k=1, lens=[2], strategy="on disk", cost=1))
    # one append to a minishard from an arbitrary state: identifiers, offsets over all 64-bit values (the end-to-end
    # harnesses use small grids, hence small identifiers)
    for first in (True, False):
        out.append(dict(harness="append_step", first=first, n=3, cost=1))
    # two scales written through one accessor, stores interleaved (same shard numbers in both scale directories)
    out.append(_cfg("twoscales", (2, 2, 2), (1, 1, 0), ("raw", "gzip"), strategy="in memory", cost=3))
    out.append(_cfg("twoscales", (3, 2, 1), (2, 0, 1), ("gzip", "raw"), strategy="on disk", cost=3))
    if tier == "thorough":
        for g, t in (((3, 4, 2), (2, 2, 0)), ((2, 2, 2), (1, 1, 0)), ((3, 4, 2), (1, 1, 1)), ((2, 1, 3), (0, 1, 0))):
            out.append(_cfg("symbolic", g, t, ("gzip", "gzip"), k=3, lens=[1, 0, 2], strategy="in memory", cost=60, wall=3000))
    return out


def _check_names(ctx, files, s):
    pat = re.compile(r"^[0-9a-f]{%d}\.shard$" % max(1, -(-s // 4)))   # "0" for shard_bits == 0 (padding never truncates)
    for p in files:
        name = p.rsplit("/", 1)[1]
        ctx.prove(bool(pat.match(name)), "shard-file-name-is-padded-lowercase-hex", detail=name)


def _verify(ctx, env, cfg, ids, payloads):
    files = S.shard_files(env.fs)
    m, s, p = cfg["m"], cfg["s"], cfg["p"]
    _check_names(ctx, files, s)
    for path in sorted(files):
        try:
            spec.structure_of(ctx, files, path, m, cfg["idx_enc"])
        except spec.SpecFail as e:
            ctx.fail("shard-file-structure", detail=f"{path}: {e}")
            return
    for cid, pl in zip(ids, payloads):
        try:
            raw, conds = spec.spec_fetch(ctx, files, f"{S.BASE}/{S.KEY}", cid, m, s, p, cfg["idx_enc"], cfg["data_enc"])
        except spec.SpecFail as e:
            ctx.fail("spec-reader-cannot-retrieve-chunk", detail=str(e))
            continue
        if conds:
            ctx.prove(z3.And(conds), "identifiers-strictly-increasing-in-minishard")
        if len(raw) != len(pl):
            ctx.prove(False, "spec-reader-payload-length", detail=f"{len(raw)} vs {len(pl)}")
            continue
        r = (raw == pl)
        ctx.prove(r if isinstance(r, bool) else r.e, "spec-reader-returns-stored-bytes")


def H_symbolic(ctx, cfg):
    env = Env()
    sb, sfa = S.setup(env)
    grid = cfg["grid"]
    info = S.make_info(grid, 1, cfg["m"], cfg["s"], cfg["p"], cfg["idx_enc"], cfg["data_enc"])
    acc, scale = S.new_writer(sfa, info, strategy=cfg["strategy"])
    ids, poss = S.sym_ids(ctx, grid, cfg["k"])
    payloads = [S.payload(f"d{i}", n) for i, n in enumerate(cfg["lens"])]
    ctx.input("positions", poss)
    ctx.input("payloads", [list(p.bs) for p in payloads])
    for fid, expr in regions_for(PROPERTY, "symbolic"):
        ctx.region(fid, eval(expr, {"z3": z3, "cfg": cfg, "pos": poss, "ids": [i.e for i in ids]}))
    for cid, pl in zip(ids, payloads):
        scale.store_cmc_chunk(pl, cid)
    acc.close()
    env.run_atexit()
    ctx.sample(dict(grid=grid, bits=[cfg["m"], cfg["s"], cfg["p"]], files=sorted(x.rsplit("/", 1)[1] for x in S.shard_files(env.fs))))
    _verify(ctx, env, cfg, [i.e for i in ids], payloads)


def H_append_step(ctx, cfg):
    """MiniShard.append from an arbitrary state: the index gains exactly (identifier - previous identifier, offset of the
    minishard for its first chunk / 0 afterwards, payload size) as three uint64 values."""
    from ..values import SBV
    env = Env()
    sb, sfa = S.setup(env)
    spec_ = sfa.ShardSpec(0, 0, "identity", "raw", "raw", 0)
    ms = sfa.MiniShard(spec_, strategy="in memory")
    last, cmc, off = z3.BitVec("last", 64), z3.BitVec("cmc", 64), z3.BitVec("off", 64)
    ctx.assume(z3.ULE(last, cmc))
    ctx.input("state", [last, cmc, off])
    ms._last_chunk_id = SBV(last, real_np.uint64)
    ms._offset = SBV(off, real_np.uint64)
    ms._appended = real_np.uint64(0 if cfg["first"] else 5)
    buf = S.payload("b", cfg["n"])
    ms.append(buf, SBV(cmc, real_np.uint64))
    h = ms.header
    ctx.sample(dict(first=cfg["first"], state="symbolic 64-bit identifiers and offset"))
    ok = len(h) == 3 and real_np.dtype(h.dtype) == real_np.dtype("uint64")
    ctx.prove(ok, "index-gains-three-uint64", detail=f"{len(h)} {h.dtype}")
    if not ok:
        return

    def term(x):
        if hasattr(x, "e"):
            return x.e
        if hasattr(x, "v"):
            return z3.Int2BV(x.v, 64)
        return z3.BitVecVal(builtins.int(x), 64)
    got = [term(x) for x in (h.a if hasattr(h, "a") else h)]
    ctx.prove(got[0] == cmc - last, "identifier-delta-exact")
    ctx.prove(got[1] == (off if cfg["first"] else z3.BitVecVal(0, 64)), "offset-entry-exact")
    ctx.prove(got[2] == cfg["n"], "size-entry-exact")
    ctx.prove(ms._last_chunk_id.e == cmc if hasattr(ms._last_chunk_id, "e") else False, "last-identifier-updated")


def _grid_coords(grid, order):
    cc = [(x, x + 1, y, y + 1, z, z + 1) for x in range(grid[0]) for y in range(grid[1]) for z in range(grid[2])]
    return cc if order == "raster" else cc[::-1]


def H_fullgrid(ctx, cfg):
    env = Env()
    sb, sfa = S.setup(env)
    grid = cfg["grid"]
    info = S.make_info(grid, 1, cfg["m"], cfg["s"], cfg["p"], cfg["idx_enc"], cfg["data_enc"])
    acc = sfa.ShardedFileAccessor(S.BASE, strategy=cfg["strategy"])
    acc.info = info
    nb = S.grid_bits(grid)
    ids, payloads, allb = [], [], []
    ctx.input("payloads", allb)
    for i, cc in enumerate(_grid_coords(grid, cfg["order"])):
        pl = S.payload(f"d{i}", 1 + i % 2)
        allb.append(list(pl.bs))
        acc.store_chunk(pl, S.KEY, cc)
        ids.append(z3.BitVecVal(S.morton_int(nb, (cc[0], cc[2], cc[4])), 64))
        payloads.append(pl)
    for fid, expr in regions_for(PROPERTY, "fullgrid"):
        ctx.region(fid, builtins.bool(eval(expr, {"cfg": cfg})))
    acc.close()
    env.run_atexit()
    ctx.sample(dict(grid=grid, chunks=len(ids), files=sorted(x.rsplit("/", 1)[1] for x in S.shard_files(env.fs))))
    _verify(ctx, env, cfg, ids, payloads)


def H_twoscales(ctx, cfg):
    env = Env()
    sb, sfa = S.setup(env)
    grid = cfg["grid"]
    info = S.make_info(grid, 1, cfg["m"], cfg["s"], cfg["p"], cfg["idx_enc"], cfg["data_enc"])
    import copy
    sc2 = copy.deepcopy(info["scales"][0])
    sc2["key"] = "s1"
    g2 = [max(1, g - 1) for g in grid]
    sc2["size"] = list(g2)
    info["scales"].append(sc2)
    acc = sfa.ShardedFileAccessor(S.BASE, strategy=cfg["strategy"])
    acc.info = info
    per_scale = {S.KEY: (grid, [], []), "s1": (g2, [], [])}
    allb = []
    ctx.input("payloads", allb)
    order = []
    for key, (g, _, _) in per_scale.items():
        order += [(key, cc) for cc in _grid_coords(g, "raster")]
    order.sort(key=lambda kc: (kc[1][::2], kc[0]))        # interleave the two scales
    for i, (key, cc) in enumerate(order):
        pl = S.payload(f"d{i}", 1 + i % 2)
        allb.append(list(pl.bs))
        acc.store_chunk(pl, key, cc)
        g, ids, pls = per_scale[key]
        ids.append(z3.BitVecVal(S.morton_int(S.grid_bits(g), (cc[0], cc[2], cc[4])), 64))
        pls.append(pl)
    acc.close()
    env.run_atexit()
    ctx.sample(dict(grid=grid, scales=2, files=sorted(p for p in env.fs.files if p.endswith(".shard"))))
    m, s_, p_ = cfg["m"], cfg["s"], cfg["p"]
    for key, (g, ids, pls) in per_scale.items():
        files = {p: d for p, d in env.fs.files.items() if p.startswith(f"{S.BASE}/{key}/")}
        _check_names(ctx, files, s_)
        for cid, pl in zip(ids, pls):
            try:
                raw, conds = spec.spec_fetch(ctx, files, f"{S.BASE}/{key}", cid, m, s_, p_, cfg["idx_enc"], cfg["data_enc"])
            except spec.SpecFail as e:
                ctx.fail("spec-reader-cannot-retrieve-chunk", detail=f"scale {key}: {e}")
                continue
            r = (raw == pl) if len(raw) == len(pl) else False
            ctx.prove(r if isinstance(r, bool) else r.e, "spec-reader-returns-stored-bytes", detail=f"scale {key}")


# --------------------------------------------------------------------- replay

class _ConcreteCtx:
    """Runs the spec reader on concrete files."""
    def decide(self, c):
        c = z3.simplify(c) if not isinstance(c, bool) else c
        return c if isinstance(c, bool) else z3.is_true(c)

    def concretize(self, e):
        return z3.simplify(e).as_long()


def real_spec_check(dirpath, cfg, ids, payloads):
    """Concrete run of the spec reader over a real directory. Returns list of problems."""
    import os
    import zlib
    from .. import modelfs
    files = {}
    for name in os.listdir(dirpath):
        with open(os.path.join(dirpath, name), "rb") as f:
            files[f"{S.BASE}/{S.KEY}/{name}"] = SBytes(f.read())
    probs = []
    pat = re.compile(r"^[0-9a-f]{%d}\.shard$" % max(1, -(-cfg["s"] // 4)))
    for p in files:
        if not pat.match(p.rsplit("/", 1)[1]):
            probs.append(f"bad shard file name {p.rsplit('/', 1)[1]}")
    # the oracle's decompress is the model framing: use real zlib here
    orig = spec.z_decompress
    spec.z_decompress = lambda b: zlib.decompress(b.concrete() if isinstance(b, SBytes) else bytes(b))
    try:
        cx = _ConcreteCtx()
        for path in sorted(files):
            try:
                spec.structure_of(cx, files, path, cfg["m"], cfg["idx_enc"])
            except (spec.SpecFail, zlib.error) as e:
                probs.append(f"{path.rsplit('/', 1)[1]}: {e}")
        for cid, pl in zip(ids, payloads):
            try:
                raw, conds = spec.spec_fetch(cx, files, f"{S.BASE}/{S.KEY}", z3.BitVecVal(cid, 64), cfg["m"], cfg["s"], cfg["p"],
                                             cfg["idx_enc"], cfg["data_enc"])
            except (spec.SpecFail, zlib.error) as e:
                probs.append(f"chunk id {cid}: {e}")
                continue
            if any(not cx.decide(c) for c in conds):
                probs.append(f"chunk id {cid}: identifiers not strictly increasing")
            got = raw.concrete() if isinstance(raw, SBytes) else bytes(raw)
            if got != bytes(pl):
                probs.append(f"chunk id {cid}: spec reader got {got!r}, stored {bytes(pl)!r}")
    finally:
        spec.z_decompress = orig
    return probs


def replay(cfg, cex):
    import os
    import tempfile
    sfa = load.mod("sharded_file_accessor")
    inp = cex["inputs"]
    if cfg["harness"] == "append_step":
        import warnings
        last, cmc, off = (builtins.int(v) for v in inp["state"])
        ms = sfa.MiniShard(sfa.ShardSpec(0, 0, "identity", "raw", "raw", 0), strategy="in memory")
        ms._last_chunk_id = real_np.uint64(last)
        ms._offset = real_np.uint64(off)
        ms._appended = real_np.uint64(0 if cfg["first"] else 5)
        with warnings.catch_warnings():
            warnings.simplefilter("ignore")
            ms.append(bytes(cfg["n"]), real_np.uint64(cmc))
        want = [cmc - last, off if cfg["first"] else 0, cfg["n"]]
        got = [builtins.int(x) for x in ms.header]
        return got != want or ms.header.dtype != real_np.uint64, f"index entries {got} ({ms.header.dtype}), expected {want}"
    grid = cfg["grid"]
    if cfg["harness"] == "twoscales":
        import copy
        info = S.make_info(grid, 1, cfg["m"], cfg["s"], cfg["p"], cfg["idx_enc"], cfg["data_enc"])
        sc2 = copy.deepcopy(info["scales"][0])
        sc2["key"] = "s1"
        g2 = [max(1, g - 1) for g in grid]
        sc2["size"] = list(g2)
        info["scales"].append(sc2)
        with tempfile.TemporaryDirectory() as td:
            acc = sfa.ShardedFileAccessor(os.path.join(td, "ds"), strategy=cfg["strategy"])
            acc.info = info
            per_scale = {S.KEY: (grid, [], []), "s1": (g2, [], [])}
            order = []
            for key, (g, _, _) in per_scale.items():
                order += [(key, cc) for cc in _grid_coords(g, "raster")]
            order.sort(key=lambda kc: (kc[1][::2], kc[0]))
            try:
                pay = list(inp["payloads"]) + [[7]] * (len(order) - len(inp["payloads"]))
                for (key, cc), pl in zip(order, pay):
                    acc.store_chunk(bytes(pl), key, cc)
                    g, ids, pls = per_scale[key]
                    ids.append(S.morton_int(S.grid_bits(g), (cc[0], cc[2], cc[4])))
                    pls.append(bytes(pl))
                acc.close()
            except Exception as e:
                return True, f"writer raised {type(e).__name__}: {e}"
            probs = []
            for key, (g, ids, pls) in per_scale.items():
                old = S.KEY
                S.KEY = key
                try:
                    probs += [f"scale {key}: {x}" for x in real_spec_check(os.path.join(td, "ds", key), cfg, ids, pls)]
                finally:
                    S.KEY = old
        return bool(probs), "; ".join(probs[:3]) or "both scales readable by the spec reader"
    nb = S.grid_bits(grid)
    info = S.make_info(grid, 1, cfg["m"], cfg["s"], cfg["p"], cfg["idx_enc"], cfg["data_enc"])
    with tempfile.TemporaryDirectory() as td:
        acc = sfa.ShardedFileAccessor(os.path.join(td, "ds"), strategy=cfg["strategy"])
        acc.info = info
        ids, payloads = [], []
        try:
            if cfg["harness"] == "symbolic":
                for pos, pl in zip(inp["positions"], inp["payloads"]):
                    cc = (pos[0], pos[0] + 1, pos[1], pos[1] + 1, pos[2], pos[2] + 1)
                    acc.store_chunk(bytes(pl), S.KEY, cc)
                    ids.append(S.morton_int(nb, pos))
                    payloads.append(bytes(pl))
            else:
                for cc, pl in zip(_grid_coords(grid, cfg["order"]), inp["payloads"]):
                    acc.store_chunk(bytes(pl), S.KEY, cc)
                    ids.append(S.morton_int(nb, (cc[0], cc[2], cc[4])))
                    payloads.append(bytes(pl))
            acc.close()
        except Exception as e:
            return True, f"writer raised {type(e).__name__}: {e}"
        probs = real_spec_check(os.path.join(td, "ds", S.KEY), cfg, ids, payloads)
    return bool(probs), "; ".join(probs[:3]) or "spec reader retrieves every chunk from the real files"
