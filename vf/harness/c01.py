"""C01 - volume conversion preserves every voxel of the input image."""
import builtins
import itertools

import numpy as real_np
import z3

from .. import load
from ..findings import regions_for
from ..sarray import SArray, SDy, SIV, SBV, SFB, SRl, elem_eq
from . import _vol as V
from .c11 import _check_elem

PROPERTY = "C01"
MODULES = ["volume_reader", "data_types", "precomputed_io", "chunk_encoding", "file_accessor", "sharded_file_accessor", "accessor"]
FUNCTIONS = ["volume_reader.volume_file_to_precomputed (RGB split)", "volume_reader.nibabel_image_to_precomputed", "volume_reader.volume_to_precomputed",
             "data_types.get_chunk_dtype_transformer", "precomputed_io.get_IO_for_existing_dataset / PrecomputedIO.write_chunk/read_chunk",
             "chunk_encoding encoders (raw, compressed_segmentation)", "accessor.get_accessor_for_url",
             "file_accessor.FileAccessor / sharded_file_accessor.ShardedFileAccessor (store, close, fetch)"]
STUBS = ["nibabel image -> fake image: header.get_data_shape(), affine, dataobj proxy with _slope/_inter and slicing "
         "(the application of slope/intercept is exact dyadic arithmetic; nibabel's own arithmetic is outside)",
         "model file system, NPProxy, StructProxy, tqdm no-op, atexit captured and run at the end of the simulated process",
         "RGB volumes (harness 'rgb'): record array = one symbolic uint8 array per field + memory order (Fortran as nibabel loads "
         "files, C for in-memory images); a view with another item size takes shape, order and errors from NumPy itself applied "
         "to a concrete record array of byte identifiers; nibabel.Nifti1Image -> fake image"]
ASSUMPTIONS = ["slope/intercept in the value harness are dyadic (0.5, 10) so that nibabel's scaling is exact",
               "the --input-min/--input-max rewriting is checked as a real-arithmetic identity (float rounding excluded)"]
EXPLANATION = ("Every voxel of the input volume is symbolic; after the real conversion a fresh accessor reads every chunk of "
               "scale 0 back and the solver proves out[c,z,y,x] == T(vol[x,y,z,c]) with T the nearest/saturating reference "
               "mapping (identity for equal types), for raw and compressed_segmentation, deep/flat/gzip/sharded layouts, "
               "full-load and proxy (mmap) modes. The slope/intercept rewriting for --input-min/--input-max is proved as an "
               "identity over the reals for symbolic header scaling and limits.")
BOUNDS = {"quick": "volumes up to 3x3x2 (+ 5x1x2), 1-3 channels, chunk sizes from {1,2,4} incl. non-dividing; dtypes "
                   "uint8/16/32/64/float32 identity, int16->uint8, uint16->float32, uint8->uint32, scaled(0.5*v+10)->uint8; "
                   "encodings raw / compressed_segmentation (block 2,2,2 and 2,2,1); layouts deep, flat, gzip, sharded(1,1,0); "
                   "RGB volumes 3x2x2, 2x3x1, 2x2x2, 1x1x3 in both memory orders through volume_file_to_precomputed",
          "thorough": "volumes up to 5x4x3; every input type (8 integer types, float32, float64) into every target type, rotating layouts, loading modes and chunk sizes"}
OUTSIDE = ["nibabel file parsing and its slope/intercept arithmetic", "real gzip", "JPEG", "record dtypes other than one-byte R,G,B"]


def _cfg(shape, cs, i, o, enc="raw", layout="deep", full=True, scaling=None, ignore=False, block=None, **kw):
    d = dict(harness="convert", shape=list(shape), cs=list(cs), i=i, o=o, enc=enc, layout=layout, full=full, scaling=scaling,
             ignore=ignore, block=block, cost=2, wall=900)
    d.update(kw)
    return d


def configs(tier, seed):
    rgb = [dict(harness="rgb", shape=[3, 2, 2], cs=[2, 2, 2], order="F", layout="deep", full=True, cost=2, wall=900),
           dict(harness="rgb", shape=[2, 3, 1], cs=[2, 2, 1], order="F", layout="flat", full=False, cost=2, wall=900),
           dict(harness="rgb", shape=[2, 2, 2], cs=[1, 2, 2], order="C", layout="gzip", full=True, cost=2, wall=900),
           dict(harness="rgb", shape=[1, 1, 3], cs=[1, 1, 2], order="F", layout="deep", full=True, cost=2, wall=900)]
    return _configs(tier, seed) + rgb


def _configs(tier, seed):
    out = [
        _cfg((3, 2, 2), (2, 2, 2), "uint8", "uint8"),
        _cfg((3, 3, 2, 2), (2, 2, 1), "uint16", "uint16", layout="flat"),
        _cfg((2, 1, 3, 3), (4, 4, 4), "float32", "float32", layout="gzip", full=False),
        _cfg((5, 1, 2), (2, 1, 2), "uint32", "uint32", layout="sharded"),
        _cfg((3, 2, 1), (2, 2, 2), "uint64", "uint64", enc="compressed_segmentation", block=(2, 2, 2), cost=6),
        _cfg((2, 2, 2), (2, 2, 1), "uint32", "uint32", enc="compressed_segmentation", block=(2, 2, 1), layout="sharded", full=False, cost=6),
        _cfg((3, 2, 2), (2, 2, 2), "int16", "uint8", layout="flat"),
        # signed inputs into unsigned targets at least as wide (negative voxels must clip to 0, not wrap)
        _cfg((3, 2, 1), (2, 2, 1), "int16", "uint16"), _cfg((2, 2, 1), (2, 2, 1), "int8", "uint32", layout="gzip", full=False),
        _cfg((2, 1, 2), (2, 1, 1), "int32", "uint64", layout="flat"),
        _cfg((2, 3, 1), (1, 2, 1), "uint16", "float32", full=False),
        _cfg((2, 2, 2), (2, 2, 2), "uint8", "uint32", enc="compressed_segmentation", block=(2, 2, 2), cost=6),
        _cfg((3, 1, 2), (2, 2, 2), "uint8", "uint8", scaling=(0.5, 10.0)),
        _cfg((3, 1, 2), (2, 2, 2), "uint8", "uint8", scaling=(0.5, 10.0), ignore=True),
        _cfg((2, 2, 1), (1, 1, 1), "uint8", "uint16", scaling=(4.0, -3.0), full=False, layout="gzip"),
        _cfg((1, 1, 1), (64, 64, 64), "uint64", "uint64"),
        _cfg((3, 3, 1, 3), (2, 2, 2), "uint8", "uint8", layout="sharded"),
        _cfg((2, 2, 1, 2), (2, 2, 1), "uint32", "uint32", enc="compressed_segmentation", block=(2, 2, 1), cost=8),   # two channels
        _cfg((3, 2, 2), (2, 2, 2), "uint16", "uint16", big_endian=True),        # big-endian input file
        _cfg((2, 2, 2), (2, 2, 1), "float32", "float32", big_endian=True, layout="flat", full=False),
        # float64 voxels with 30 / 40 fractional bits (values within 2^-30 of a half-integer) into 8/16-bit targets
        _cfg((2, 1, 1), (2, 1, 1), "float64", "uint8", fexp=-30, cost=4), _cfg((1, 2, 1), (1, 1, 1), "float64", "uint16", fexp=-40, full=False, cost=4),
    ]
    if tier == "thorough":
        out += [_cfg((5, 4, 3), (2, 2, 2), "uint16", "uint16", layout="sharded"), _cfg((4, 3, 3, 2), (4, 2, 1), "int32", "uint16"),
                _cfg((3, 3, 3), (2, 2, 2), "float64", "uint8", cost=8), _cfg((4, 2, 2), (2, 2, 2), "uint64", "uint64", enc="compressed_segmentation", block=(2, 2, 2), cost=30, wall=1500),
                _cfg((5, 2, 3), (4, 4, 4), "int8", "uint64", full=False, layout="flat")]
    if tier == "thorough":
        # every input type against every Neuroglancer target type, rotating layouts / loading modes / chunk sizes
        ins = ["uint8", "int8", "uint16", "int16", "uint32", "int32", "uint64", "int64", "float32", "float64"]
        outs = ["uint8", "uint16", "uint32", "uint64", "float32"]
        n = 0
        for i_ in ins:
            for o_ in outs:
                n += 1
                if i_ in ("float32", "float64") and o_ == "float32" and i_ != o_:
                    continue          # float64 -> float32 narrowing: subnormal results are outside the exact rounding model
                wide_to_f32 = o_ == "float32" and i_ in ("uint32", "int32", "uint64", "int64")
                # (the rounding model case-splits on the bit length of every voxel: one or two voxels for those pairs)
                shape_ = ((1, 1, 1), (2, 1, 1))[n % 2] if wide_to_f32 else ((3, 2, 2), (2, 3, 1), (1, 2, 3), (2, 2, 2, 2))[n % 4]
                out.append(_cfg(shape_, (1, 1, 1) if wide_to_f32 else ((2, 2, 2), (1, 2, 1), (4, 4, 4))[n % 3], i_, o_,
                                layout=("deep", "flat", "gzip", "sharded")[n % 4], full=bool(n % 2), cost=3))
    out.append(dict(harness="scaling", o="uint8", cost=1))
    out.append(dict(harness="scaling", o="uint16", cost=1))
    out.append(dict(harness="scaling", o="float32", cost=1))
    return out


def _fresh_volume(ctx, shape, dtype, exact, fexp=-2):
    dt = real_np.dtype(dtype)
    if dt.kind == "f" and exact:
        # float inputs that are converted: exact dyadic values m * 2^fexp with a common exponent (22/51-bit mantissas;
        # fexp = -2: quarter steps; fexp = -30 / -40: values a hair away from half-integers)
        a = real_np.empty(shape, dtype=object)
        prec = SDy.PREC[dt.itemsize]
        for idx in real_np.ndindex(*shape):
            m = z3.Int("v_" + "_".join(map(str, idx)))
            ctx.assume(z3.And(m > -(1 << (prec - 2)), m < (1 << (prec - 2))))
            a[idx] = SDy(m, fexp, prec, dt)
        return SArray(a, dt)
    return SArray.fresh(tuple(shape), dtype, "v", exact_int=exact)


def _exact_value(el, scaling):
    """(numerator term, denominator int) of the documented input value of one voxel"""
    if isinstance(el, SIV):
        n, d = el.v, 1
    elif isinstance(el, SDy):
        n, d = el.value_num_den()
    else:
        raise AssertionError(type(el))
    if scaling:
        from fractions import Fraction
        s, i = Fraction(scaling[0]), Fraction(scaling[1])
        den = d * s.denominator * i.denominator
        n = n * s.numerator * i.denominator * (den // (d * s.denominator * i.denominator)) + i.numerator * d * s.denominator
        # value = n_old/d * s + i
        n = (el.v if isinstance(el, SIV) else el.value_num_den()[0]) * s.numerator * i.denominator + i.numerator * d * s.denominator
        d = d * s.denominator * i.denominator
    return n, d


def H_convert(ctx, cfg):
    shape, cs, i, o = cfg["shape"], cfg["cs"], cfg["i"], cfg["o"]
    convert = (i != o) or bool(cfg["scaling"] and not cfg["ignore"])
    W = V.World(exact_int=convert)
    vol = _fresh_volume(ctx, shape, i, convert, cfg.get("fexp", -2))
    ctx.input("volume", [x.__zexpr__() for x in vol.a.ravel()])
    for fid, expr in regions_for(PROPERTY, "convert"):
        ctx.region(fid, builtins.bool(eval(expr, {"cfg": cfg})))
    C = shape[3] if len(shape) == 4 else 1
    sharding = (1, 1, 0) if cfg["layout"] == "sharded" else None
    csz = cs if not sharding else [max(cs)] * 3
    info = V.make_info(o, C, shape[:3], csz, cfg["enc"], cfg["block"], sharding)
    url = "/mfs/out"
    W.put_info(url, info)
    options = dict(flat=cfg["layout"] == "flat", gzip=cfg["layout"] == "gzip")
    if sharding:
        options["sharding"] = "1,1,0"
    sl, it = cfg["scaling"] or (None, None)
    src = SArray(vol.a, real_np.dtype(i).newbyteorder(">")) if cfg.get("big_endian") else vol
    img = V.FakeImage(src, slope=sl, inter=it)
    acc = W.accessor(url, options)
    writer = W.pio.get_IO_for_existing_dataset(acc)
    stores = [0]
    orig = acc.store_chunk

    def counting(*a, **k):
        stores[0] += 1
        return orig(*a, **k)
    acc.store_chunk = counting
    W.vr.nibabel_image_to_precomputed(img, writer, cfg["ignore"], None, None, cfg["full"], options)
    W.finish()
    n_chunks = 1
    for d in range(3):
        n_chunks *= -(-shape[d] // csz[d])
    ctx.prove(stores[0] == n_chunks, "number-of-chunks-written-is-product-of-ceil(size/chunk)", detail=f"{stores[0]} vs {n_chunks}")
    out, problems, _ = W.read_scale(url, info, 0, dict(options, **({"sharding": None} if sharding else {})))
    ctx.sample(dict(cfg={k: cfg[k] for k in ("shape", "cs", "i", "o", "enc", "layout", "full", "scaling", "ignore")},
                    files=sorted(W.env.fs.files)[:6]))
    if problems:
        ctx.fail("chunk-read-back", detail="; ".join(problems[:3]))
        return
    X, Y, Z = shape[:3]
    conds = []
    for c in range(C):
        for z in range(Z):
            for y in range(Y):
                for x in range(X):
                    src = vol.a[(x, y, z, c) if len(shape) == 4 else (x, y, z)]
                    got = out[c, z, y, x]
                    if got is None:
                        ctx.fail("voxel-not-written", detail=str((c, z, y, x)))
                        return
                    if not convert:
                        conds.append(V.eq_elems(got, src))
                    else:
                        n, d = _exact_value(src, None if cfg["ignore"] else cfg["scaling"])
                        _check_elem(ctx, got, n, d, o, f"voxel[{c},{z},{y},{x}]")
    if conds:
        ctx.prove(z3.And(conds), "every-voxel-equals-input-voxel-at-the-same-position")


def H_rgb(ctx, cfg):
    """RGB (record dtype) volume file through volume_file_to_precomputed: out[c,z,y,x] == field c of voxel (x,y,z)."""
    from ..sarray import SStructArray
    shape, cs = cfg["shape"], cfg["cs"]
    W = V.World()
    fields = {n: SArray.fresh(tuple(shape), "uint8", f"{n.lower()}_") for n in ("R", "G", "B")}
    ctx.input("volume", [x.__zexpr__() for n in "RGB" for x in fields[n].a.ravel()])
    vol = SStructArray(fields, order=cfg["order"])           # nibabel hands out Fortran-ordered arrays for files
    info = V.make_info("uint8", 3, shape, cs)
    url = "/mfs/out"
    W.put_info(url, info)
    options = dict(flat=cfg["layout"] == "flat", gzip=cfg["layout"] == "gzip")
    W.images["/in/rgb.nii"] = V.FakeImage(vol)
    rc = W.vr.volume_file_to_precomputed("/in/rgb.nii", url, load_full_volume=cfg["full"], options=options)
    W.finish()
    ctx.prove(not rc, "conversion-succeeds", detail=str(rc))
    out, problems, _ = W.read_scale(url, info, 0, options)
    ctx.sample(dict(cfg={k: cfg[k] for k in ("shape", "cs", "order", "layout", "full")}, files=sorted(W.env.fs.files)[:6]))
    if problems:
        ctx.fail("chunk-read-back", detail="; ".join(problems[:3]))
        return
    X, Y, Z = shape
    conds = []
    for c, n in enumerate("RGB"):
        for z in range(Z):
            for y in range(Y):
                for x in range(X):
                    got = out[c, z, y, x]
                    if got is None:
                        ctx.fail("voxel-not-written", detail=str((c, z, y, x)))
                        return
                    conds.append(V.eq_elems(got, fields[n].a[x, y, z]))
    ctx.prove(z3.And(conds), "every-voxel-equals-input-voxel-at-the-same-position")


def H_scaling(ctx, cfg):
    """--input-min/--input-max: the rewritten slope/intercept compose the header scaling with the linear map
    [input_min, input_max] -> [output_min, output_max] (identity over the reals)."""
    W = V.World(exact_int=True)
    o = cfg["o"]
    s, i, lo, hi, raw = (z3.Real(n) for n in ("slope", "inter", "input_min", "input_max", "raw"))
    ctx.assume(hi != lo)
    ctx.input("header", [s, i])
    ctx.input("limits", [lo, hi])
    vol = SArray.from_elems([SIV(z3.IntVal(7), "uint8")], "uint8", (1, 1, 1))
    img = V.FakeImage(vol)
    img.dataobj._slope = SRl(s)
    img.dataobj._inter = SRl(i)
    img.dataobj._scaled = lambda arr: arr.astype(real_np.float64)      # values are not the subject here
    info = V.make_info(o, 1, (1, 1, 1), (1, 1, 1))
    W.put_info("/mfs/out", info)
    writer = W.pio.get_IO_for_existing_dataset(W.accessor("/mfs/out", {}))
    try:
        W.vr.nibabel_image_to_precomputed(img, writer, False, SRl(lo), SRl(hi), True, {})
    except Exception as e:
        if type(e).__name__ == "OutsideModel":
            raise
        ctx.fail("conversion-with-input-min-max-raised", detail=f"{type(e).__name__}: {e}")
        return
    ns, ni = img.dataobj._slope, img.dataobj._inter
    if not isinstance(ns, SRl) or not isinstance(ni, SRl):
        ctx.fail("slope-intercept-not-rewritten", detail=f"{ns!r} {ni!r}")
        return
    if real_np.dtype(o).kind in "ui":
        omin, omax = 0, real_np.iinfo(o).max
    else:
        omin, omax = 0, 1
    stored = raw * s + i                       # value after the header scaling
    want = (stored - lo) * (omax - omin) / (hi - lo) + omin
    got = raw * ns.r + ni.r
    ctx.sample(dict(output_type=o, rewritten_slope=str(z3.simplify(ns.r))[:80]))
    ctx.prove(got == want, "rewritten-scaling-maps-input-min-max-onto-output-range-after-header-scaling")
    # default input_min = 0 when only --input-max is given
    img2 = V.FakeImage(vol)
    img2.dataobj._slope = SRl(s)
    img2.dataobj._inter = SRl(i)
    img2.dataobj._scaled = lambda arr: arr.astype(real_np.float64)
    ctx.assume(hi != 0)
    W.vr.nibabel_image_to_precomputed(img2, writer, False, None, SRl(hi), True, {})
    got2 = raw * img2.dataobj._slope.r + img2.dataobj._inter.r
    ctx.prove(got2 == stored * (omax - omin) / hi + omin, "input-min-defaults-to-zero")


# --------------------------------------------------------------------- replay

def _replay_rgb(cfg, inp):
    import os
    import tempfile
    import nibabel
    vr = load.mod("volume_reader")
    pio = load.mod("precomputed_io")
    acc_mod = load.mod("accessor")
    shape, cs = cfg["shape"], cfg["cs"]
    vals = real_np.array(inp["volume"], dtype=real_np.uint8).reshape((3,) + tuple(shape))
    rgb = real_np.zeros(tuple(shape), dtype=[("R", "u1"), ("G", "u1"), ("B", "u1")], order=cfg["order"])
    for c, n in enumerate("RGB"):
        rgb[n] = vals[c]
    options = dict(flat=cfg["layout"] == "flat", gzip=cfg["layout"] == "gzip")
    with tempfile.TemporaryDirectory() as td:
        fn = os.path.join(td, "rgb.nii")
        nibabel.save(nibabel.Nifti1Image(rgb, real_np.eye(4)), fn)
        url = os.path.join(td, "out")
        info = V.make_info("uint8", 3, shape, cs)
        pio.get_IO_for_new_dataset(info, acc_mod.get_accessor_for_url(url, options))
        try:
            if cfg["order"] == "F":
                rc = vr.volume_file_to_precomputed(fn, url, load_full_volume=cfg["full"], options=options)
            else:       # a C-ordered record array can only come from memory: hand the image over as the tests do
                import unittest.mock
                with unittest.mock.patch("nibabel.load", return_value=nibabel.Nifti1Image(rgb, real_np.eye(4))):
                    rc = vr.volume_file_to_precomputed(fn, url, load_full_volume=cfg["full"], options=options)
        except Exception as e:
            return True, f"RGB volume {tuple(shape)} ({cfg['order']}-ordered): conversion raised {type(e).__name__}: {e}"
        if rc:
            return True, f"conversion returned {rc}"
        r = pio.get_IO_for_existing_dataset(acc_mod.get_accessor_for_url(url, options))
        X, Y, Z = shape
        for x0 in range(0, X, cs[0]):
            for y0 in range(0, Y, cs[1]):
                for z0 in range(0, Z, cs[2]):
                    cc = (x0, min(x0 + cs[0], X), y0, min(y0 + cs[1], Y), z0, min(z0 + cs[2], Z))
                    try:
                        ch = r.read_chunk("full", cc)
                    except Exception as e:
                        return True, f"chunk {cc} unreadable: {type(e).__name__}: {e}"
                    want = real_np.stack([rgb[n][cc[0]:cc[1], cc[2]:cc[3], cc[4]:cc[5]].transpose(2, 1, 0) for n in "RGB"])
                    if ch.shape != want.shape or not real_np.array_equal(ch, want):
                        return True, f"chunk {cc}: stored {ch.ravel().tolist()} expected {want.ravel().tolist()}"
    return False, "every RGB voxel preserved on the real code"


def _reference_convert(src, o):
    """nearest / saturating conversion written from the property statement (independent of the code under test)"""
    from fractions import Fraction
    from .c11 import _nearest
    odt = real_np.dtype(o)
    if src.dtype == odt:
        return src
    out = real_np.empty(src.shape, dtype=odt)
    for idx in real_np.ndindex(*src.shape):
        v = src[idx]
        x = Fraction(int(v)) if src.dtype.kind in "ui" else Fraction(float(v))
        out[idx] = _nearest(x, o)
    return out


def replay(cfg, cex):
    import os
    import tempfile
    import nibabel
    from fractions import Fraction
    inp = cex["inputs"]
    if cfg["harness"] == "rgb":
        return _replay_rgb(cfg, inp)
    if cfg["harness"] == "scaling":
        vr = load.mod("volume_reader")
        pio = load.mod("precomputed_io")
        acc_mod = load.mod("accessor")
        s, i = (float(Fraction(x)) for x in inp["header"])
        lo, hi = (float(Fraction(x)) for x in inp["limits"])
        with tempfile.TemporaryDirectory() as td:
            data = real_np.arange(8, dtype=real_np.int16).reshape(2, 2, 2)
            img = nibabel.Nifti1Image(data, real_np.eye(4))
            img.header.set_slope_inter(s if s else 1.0, i)
            fn = os.path.join(td, "in.nii")
            nibabel.save(img, fn)
            img = nibabel.load(fn)
            info = V.make_info(cfg["o"], 1, (2, 2, 2), (2, 2, 2))
            acc = acc_mod.get_accessor_for_url(os.path.join(td, "out"), {})
            w = pio.get_IO_for_new_dataset(info, acc)
            ps, pi_ = img.dataobj.slope, img.dataobj.inter
            vr.nibabel_image_to_precomputed(img, w, False, lo, hi, True, {})
            omax = real_np.iinfo(cfg["o"]).max if real_np.dtype(cfg["o"]).kind in "ui" else 1
            ws = ps * omax / (hi - lo)
            wi = (pi_ - lo) * omax / (hi - lo)
            bad = not (real_np.isclose(img.dataobj.slope, ws) and real_np.isclose(img.dataobj.inter, wi))
            return bad, f"rewritten slope/inter {img.dataobj.slope}/{img.dataobj.inter}, expected {ws}/{wi}"
    shape, cs, i, o = cfg["shape"], cfg["cs"], cfg["i"], cfg["o"]
    vr = load.mod("volume_reader")
    pio = load.mod("precomputed_io")
    acc_mod = load.mod("accessor")
    vals = inp["volume"]
    dt = real_np.dtype(i)
    if dt.kind == "f" and not ((i != o) or (cfg["scaling"] and not cfg["ignore"])):
        vol = real_np.array(vals, dtype=real_np.uint32 if dt.itemsize == 4 else real_np.uint64).view(dt).reshape(shape)
    elif dt.kind == "f":
        vol = (real_np.array(vals, dtype=real_np.float64) * 2.0 ** cfg.get("fexp", -2)).astype(dt).reshape(shape)
    else:
        vol = real_np.array([v if v < 2 ** 63 else v - 2 ** 64 for v in vals] if dt.kind == "i" else vals,
                            dtype=real_np.int64 if dt.kind == "i" else real_np.uint64).astype(dt).reshape(shape)
    C = shape[3] if len(shape) == 4 else 1
    if cfg.get("big_endian"):
        vol = vol.astype(vol.dtype.newbyteorder(">"))
    sharding = (1, 1, 0) if cfg["layout"] == "sharded" else None
    csz = cs if not sharding else [max(cs)] * 3
    info = V.make_info(o, C, shape[:3], csz, cfg["enc"], cfg["block"], sharding)
    options = dict(flat=cfg["layout"] == "flat", gzip=cfg["layout"] == "gzip")
    if sharding:
        options["sharding"] = "1,1,0"
    with tempfile.TemporaryDirectory() as td:
        url = os.path.join(td, "out")
        acc = acc_mod.get_accessor_for_url(url, options)
        if sharding:
            acc.info = info
        try:
            w = pio.get_IO_for_new_dataset(info, acc)
            img = V.FakeImage.__new__(V.FakeImage)

            class P:
                def __init__(s_, raw, sl, it):
                    s_.raw, s_._slope, s_._inter = raw, sl, it
                slope = property(lambda s_: s_._slope)
                inter = property(lambda s_: s_._inter)

                def _sc(s_, a):
                    a = real_np.asarray(a)
                    if s_._slope == 1.0 and s_._inter == 0.0:
                        return a
                    return a.astype(real_np.float64) * s_._slope + s_._inter

                def __getitem__(s_, k):
                    return s_._sc(s_.raw[k])

                def __array__(s_, dtype=None, copy=None):
                    return s_._sc(s_.raw)
            sl, it = cfg["scaling"] or (1.0, 0.0)
            import types
            img = types.SimpleNamespace(dataobj=P(vol, sl, it), affine=real_np.eye(4),
                                        header=types.SimpleNamespace(get_data_shape=lambda: tuple(shape)))
            vr.nibabel_image_to_precomputed(img, w, cfg["ignore"], None, None, cfg["full"], options)
            if sharding:
                acc.close()
            acc2 = acc_mod.get_accessor_for_url(url, {k: v for k, v in options.items() if k != "sharding"})
            r = pio.get_IO_for_existing_dataset(acc2)
            X, Y, Z = shape[:3]
            exp = vol if len(shape) == 4 else vol[..., None]
            sc = None if cfg["ignore"] else cfg["scaling"]
            for x0 in range(0, X, csz[0]):
                for y0 in range(0, Y, csz[1]):
                    for z0 in range(0, Z, csz[2]):
                        cc = (x0, min(x0 + csz[0], X), y0, min(y0 + csz[1], Y), z0, min(z0 + csz[2], Z))
                        ch = r.read_chunk("full", cc)
                        src = exp[cc[0]:cc[1], cc[2]:cc[3], cc[4]:cc[5], :]
                        if sc:
                            src = src.astype(real_np.float64) * sc[0] + sc[1]
                        want = real_np.moveaxis(_reference_convert(src, o), (0, 1, 2, 3), (3, 2, 1, 0))
                        if ch.shape != want.shape or ch.tobytes() != real_np.ascontiguousarray(want).tobytes():
                            return True, f"chunk {cc}: stored {ch.ravel().tolist()} expected {want.ravel().tolist()}"
        except Exception as e:
            return True, f"conversion/read-back raised {type(e).__name__}: {e}"
    return False, "every voxel preserved on the real code"
