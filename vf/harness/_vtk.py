"""Pieces of the C17 VTK-export harness: a text stream that keeps symbolic tokens, an opaque title of symbolic
length, stand-ins for np.savetxt / np.insert, and a parser written from Neuroglancer's VTK reader
(src/neuroglancer/datasource/vtk/parse.ts at a8ce6816): the "subset grammar Neuroglancer accepts"."""
import builtins
import re

import numpy as real_np
import z3

from ..core import OutsideModel, cur
from ..sarray import SArray, cast_elem, is_elem
from ..values import SBV, SInt
from .. import sstr


class FloatTok:
    """'%.9g' rendering of a finite float: one word matching the number grammar, value = the element."""
    def __init__(self, elem):
        self.elem = elem

    def __repr__(self):
        return f"<float {self.elem!r}>"


class IntTok:
    """'%d' rendering of a symbolic integer (digits only exactly when it is non-negative)."""
    def __init__(self, term):
        self.term = term          # z3 Int

    def __repr__(self):
        return f"<int {self.term}>"


class TextSeg:
    """Opaque run of characters without line terminators; symbolic length."""
    def __init__(self, name, length):
        self.name, self.length = name, length

    def __repr__(self):
        return f"<text {self.name} len={self.length}>"


class SymText:
    """A str-like value: sequence of literal strings and TextSegs (only what the VTK writer does with its title)."""
    def __init__(self, parts):
        self.parts = [p for p in parts if not (isinstance(p, str) and p == "")]

    def length(self):
        tot = z3.IntVal(0)
        for p in self.parts:
            tot = tot + (len(p) if isinstance(p, str) else p.length)
        return z3.simplify(tot)

    def __contains__(self, s):
        if s in ("\n", "\r"):
            return any(isinstance(p, str) and s in p for p in self.parts)
        raise OutsideModel(f"substring test {s!r} on symbolic text")

    def __bool__(self):
        return cur().decide(self.length() > 0)

    def __len__(self):
        return cur().concretize(self.length())

    def __add__(self, o):
        if isinstance(o, SymText):
            return SymText(self.parts + o.parts)
        if isinstance(o, str):
            return SymText(self.parts + sstr.parse(o))
        return NotImplemented

    def __radd__(self, o):
        if isinstance(o, str):
            return SymText(sstr.parse(o) + self.parts)
        return NotImplemented

    def __getitem__(self, k):
        if not (isinstance(k, slice) and k.start is None and k.step is None and isinstance(k.stop, builtins.int) and k.stop >= 0):
            raise OutsideModel(f"symbolic text index {k!r}")
        ctx = cur()
        remaining = z3.IntVal(k.stop)
        out = []
        for p in self.parts:
            n = len(p) if isinstance(p, str) else p.length
            if ctx.decide(remaining >= n):
                out.append(p)
                remaining = z3.simplify(remaining - n)
                continue
            if isinstance(p, str):
                out.append(p[:ctx.concretize(remaining)])
            else:
                out.append(TextSeg(p.name + "[:k]", remaining))
            break
        return SymText(out)

    def __format__(self, spec):
        if spec:
            raise OutsideModel("format spec on symbolic text")
        return sstr._register(self)

    def __str__(self):
        return sstr._register(self)

    def __repr__(self):
        return "SymText(" + "+".join(map(repr, self.parts)) + ")"


class TextStream:
    """file opened in text mode: collects literal strings and symbolic tokens."""
    def __init__(self):
        self.parts = []

    def write(self, s):
        if isinstance(s, SymText):
            self.parts += s.parts
            return
        if not isinstance(s, str):
            raise TypeError(f"write() argument must be str, not {type(s).__name__}")
        for p in sstr.parse(s):
            if isinstance(p, SymText):
                self.parts += p.parts
            elif isinstance(p, sstr.SDecimal) and p.k == 0 and not p.grouping:
                self.parts.append(IntTok(p.D))
            else:
                self.parts.append(p)

    def write_row(self, toks):
        for i, t in enumerate(toks):
            if i:
                self.parts.append(" ")
            self.parts.append(t)
        self.parts.append("\n")


def _render(e, fmt):
    if fmt == "%d":
        if isinstance(e, (SBV, SInt)):
            t = z3.simplify(e.to_sint("int").e if isinstance(e, SBV) else e.e)
            return str(t.as_long()) if z3.is_int_value(t) else IntTok(t)
        if isinstance(e, (builtins.int, real_np.integer)):
            return "%d" % e
        raise OutsideModel(f"%d of {type(e).__name__}")
    if fmt == "%.9g":
        if isinstance(e, (builtins.float, builtins.int, real_np.floating, real_np.integer)):
            return "%.9g" % e
        return FloatTok(e)
    raise OutsideModel(f"savetxt format {fmt!r}")


def h_savetxt(fname, X, fmt="%.18e", delimiter=" ", newline="\n", **kw):
    if not isinstance(fname, TextStream) or delimiter != " " or newline != "\n" or kw:
        raise OutsideModel("np.savetxt outside the VTK harness")
    a = X.a if isinstance(X, SArray) else real_np.asarray(X)
    if a.ndim == 0 or a.ndim > 2:
        raise ValueError(f"Expected 1D or 2D array, got {a.ndim}D array instead")
    if a.ndim == 1:
        a = a.reshape(-1, 1)
    for row in a:
        fname.write_row([_render(e, fmt) for e in row])


def h_insert(arr, obj, values, axis=None):
    if not isinstance(arr, SArray) or axis is None or not isinstance(obj, builtins.int) or not (
            isinstance(values, (builtins.int, builtins.float)) or is_elem(values)):
        raise OutsideModel("np.insert (general form)")
    v = cast_elem(values, arr.dtype)
    shp = list(arr.shape)
    shp[axis] = 1
    col = real_np.empty(shp, dtype=object)
    for idx in real_np.ndindex(*shp):
        col[idx] = v
    sl = [slice(None)] * arr.ndim
    lo, hi = list(sl), list(sl)
    lo[axis] = slice(None, obj)
    hi[axis] = slice(obj, None)
    return SArray(real_np.concatenate([arr.a[tuple(lo)], col, arr.a[tuple(hi)]], axis=axis), arr.dtype)


# ------------------------------------------------------------------ the reader-side grammar

class VTKParseError(Exception):
    pass


def _lines(parts):
    """split the stream into lines; each line is a list of words; each word is a list of fragments"""
    lines, words, word = [], [], []
    raw_lines, raw = [], []

    def end_word():
        nonlocal word
        if word:
            words.append(word)
            word = []

    def end_line():
        nonlocal words, raw
        end_word()
        lines.append(words)
        raw_lines.append(raw)
        words, raw = [], []

    for p in parts:
        if isinstance(p, str):
            for ch in p:
                if ch == "\n":
                    end_line()
                elif ch in " \t":
                    end_word()
                    raw.append(ch)
                else:
                    if word and isinstance(word[-1], str):
                        word[-1] += ch
                    else:
                        word.append(ch)
                    raw.append(ch)
        else:
            word.append(p)
            raw.append(p)
    end_line()
    return lines, raw_lines


def _lit(word):
    return word[0] if len(word) == 1 and isinstance(word[0], str) else None


def _uint(ctx, word, what):
    """word must match [0-9]+ ; returns its value (int or z3 term)"""
    if len(word) != 1:
        raise VTKParseError(f"{what}: not a number: {word!r}")
    w = word[0]
    if isinstance(w, str):
        if not re.fullmatch("[0-9]+", w):
            raise VTKParseError(f"{what}: not an unsigned integer: {w!r}")
        return builtins.int(w)
    if isinstance(w, IntTok):
        if ctx.decide(w.term < 0):
            raise VTKParseError(f"{what}: negative integer is not matched by [0-9]+")
        return w.term
    raise VTKParseError(f"{what}: not an unsigned integer: {w!r}")


def _conc(ctx, v):
    return v if isinstance(v, builtins.int) else ctx.concretize(v)


def _number(word, what):
    """parseFloat must succeed on the word"""
    if len(word) != 1:
        raise VTKParseError(f"{what}: not a number: {word!r}")
    w = word[0]
    if isinstance(w, str):
        if not re.match(r"[+-]?(\d+\.?\d*|\.\d+)([eE][+-]?\d+)?|[+-]?Infinity", w):
            raise VTKParseError(f"{what}: not a number: {w!r}")
        return builtins.float(re.match(r"[+-]?(\d+\.?\d*|\.\d+)([eE][+-]?\d+)?", w).group(0))
    if isinstance(w, (FloatTok, IntTok)):
        return w
    raise VTKParseError(f"{what}: not a number: {w!r}")


def parse_vtk(ctx, parts):
    """Returns dict(num_vertices, points, triangles, attributes=[(name, ncomp, values)], title_line) or raises VTKParseError."""
    lines, raw = _lines(parts)
    if len(lines) < 5:
        raise VTKParseError("Failed to parse VTK file header")
    h0 = [_lit(w) for w in lines[0]]
    if len(h0) != 5 or h0[:4] != ["#", "vtk", "DataFile", "Version"] or h0[4] is None:
        raise VTKParseError(f"Failed to parse VTK file header: {lines[0]!r}")
    if h0[4] != "3.0":
        raise VTKParseError(f"Unsupported VTK file version {h0[4]!r}")
    for frag in raw[1]:
        if isinstance(frag, str) and frag in "\r\u2028\u2029":
            raise VTKParseError("line terminator inside the title line")
    if [_lit(w) for w in lines[2]] != ["ASCII"]:
        raise VTKParseError(f"Unsupported VTK data format {lines[2]!r}")
    if [_lit(w) for w in lines[3]] != ["DATASET", "POLYDATA"]:
        raise VTKParseError(f"Unsupported VTK dataset {lines[3]!r}")
    st = dict(n=-1, points=None, tris=None, attrs=[], ln=4)
    N = len(lines)

    def parse_array(field, n, ncomp):
        total = n * ncomp
        out = []
        while len(out) < total:
            if st["ln"] >= N:
                raise VTKParseError(f"Expected {total} values for {field}, but only found {len(out)}")
            line = lines[st["ln"]]
            st["ln"] += 1
            for w in line:
                if len(out) >= total:
                    raise VTKParseError(f"Expected only {total} values for {field}")
                out.append(_number(w, field))
        return out

    def kw(line):
        return _lit(line[0]) if line else None

    while st["ln"] < N:
        line = lines[st["ln"]]
        if not line:
            st["ln"] += 1
            continue
        k = kw(line)
        if k == "POINTS" and len(line) == 3:
            n = _conc(ctx, _uint(ctx, line[1], "POINTS"))
            if st["points"] is not None:
                raise VTKParseError("POINTS specified more than once")
            st["ln"] += 1
            st["n"] = n
            st["points"] = parse_array("POINTS", n, 3)
            continue
        if k == "POLYGONS" and len(line) == 3:
            nf = _conc(ctx, _uint(ctx, line[1], "POLYGONS"))
            nv = _conc(ctx, _uint(ctx, line[2], "POLYGONS"))
            if st["tris"] is not None:
                raise VTKParseError("POLYGONS specified more than once")
            if nv != nf * 4:
                raise VTKParseError("Only triangular faces are supported")
            st["ln"] += 1
            tris = []
            for _ in range(nf):
                if st["ln"] >= N:
                    raise VTKParseError("Expected triangle description")
                tl = lines[st["ln"]]
                st["ln"] += 1
                if len(tl) != 4 or _lit(tl[0]) != "3":
                    raise VTKParseError(f"Failed to parse indices for face: {tl!r}")
                tris.append([_uint(ctx, w, "face") for w in tl[1:]])
            st["tris"] = tris
            continue
        if k == "POINT_DATA" and len(line) == 2:
            n = _conc(ctx, _uint(ctx, line[1], "POINT_DATA"))
            if st["n"] != n:
                raise VTKParseError(f"Number of vertices specified in POINT_DATA section ({n}) must match number of points ({st['n']})")
            st["ln"] += 1
            while st["ln"] < N:
                line = lines[st["ln"]]
                if not line:
                    st["ln"] += 1
                    continue
                if kw(line) == "SCALARS" and len(line) in (3, 4) and len(line[1]) >= 1 and len(line[2]) >= 1:
                    ncomp = _conc(ctx, _uint(ctx, line[3], "SCALARS")) if len(line) == 4 else 1
                    st["ln"] += 1
                    if st["ln"] >= N:
                        raise VTKParseError("Expected LOOKUP_TABLE directive")
                    lt = lines[st["ln"]]
                    if len(lt) != 2 or _lit(lt[0]) != "LOOKUP_TABLE":
                        raise VTKParseError(f"Expected LOOKUP_TABLE directive in {lt!r}")
                    st["ln"] += 1
                    name = _lit(line[1])
                    st["attrs"].append((name, ncomp, parse_array(f"SCALARS {name}", n, ncomp)))
                    continue
                raise VTKParseError(f"Failed to parse line {st['ln']}: {line!r}")
            continue
        raise VTKParseError(f"Failed to parse line {st['ln']}: {line!r}")
    if st["points"] is None:
        raise VTKParseError("Vertex positions not specified")
    if st["tris"] is None:
        raise VTKParseError("Indices not specified")
    return dict(num_vertices=st["n"], points=st["points"], triangles=st["tris"], attributes=st["attrs"], title_line=raw[1])
