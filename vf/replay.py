"""Replay a solver counterexample against the unmodified repository code with the
real libraries, in a fresh interpreter.  Exit 0: the violation reproduces; 2: it does not."""
import importlib
import json
import sys
import traceback


def main():
    with open(sys.argv[1]) as f:
        rec = json.load(f)
    from . import load
    load.setup_path()
    m = importlib.import_module(rec["module"])
    try:
        ok, detail = m.replay(rec["cfg"], rec["cex"])
    except Exception:
        print("replay harness crashed:\n" + traceback.format_exc())
        return 4
    print(("REPRODUCED: " if ok else "NOT REPRODUCED: ") + str(detail))
    return 0 if ok else 2


if __name__ == "__main__":
    sys.exit(main())
