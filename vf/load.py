"""Loading the repository's modules from VERIF_REPO (default /repo) and substituting
library / builtin names in their namespaces (function bodies stay untouched)."""
import hashlib
import importlib
import importlib.util
import os
import sys
import types

REPO = os.path.abspath(os.environ.get("VERIF_REPO", "/repo"))
SRC = os.path.join(REPO, "src")
PKG = "neuroglancer_scripts"


def setup_path():
    if sys.path[0] != SRC:
        sys.path.insert(0, SRC)
    import neuroglancer_scripts
    f = os.path.abspath(neuroglancer_scripts.__file__)
    if not f.startswith(SRC + os.sep):
        raise RuntimeError(f"neuroglancer_scripts imported from {f}, expected under {SRC}")


def mod(name):
    setup_path()
    full = name if name.startswith(PKG) else f"{PKG}.{name}"
    return importlib.import_module(full)


def patch(name, **subst):
    """Rebind names in a repository module's globals (library aliases, builtins)."""
    m = mod(name)
    for k, v in subst.items():
        setattr(m, k, v)
    return m


def preseed(name, **subst):
    """(Re)load a repository module with stand-ins already present in its dictionary
    while its unmodified source executes (for names captured at import time, e.g.
    base classes)."""
    setup_path()
    full = name if name.startswith(PKG) else f"{PKG}.{name}"
    spec = importlib.util.find_spec(full)
    m = types.ModuleType(full)
    m.__spec__ = spec
    m.__file__ = spec.origin
    m.__loader__ = spec.loader
    m.__package__ = full.rpartition(".")[0]
    m.__dict__.update(subst)
    sys.modules[full] = m
    with open(spec.origin, "rb") as f:
        code = compile(f.read(), spec.origin, "exec")
    exec(code, m.__dict__)
    # import statements in the source rebind library names: substitute them again
    m.__dict__.update(subst)
    parent = sys.modules.get(m.__package__)
    if parent is not None:
        setattr(parent, full.rpartition(".")[2], m)
    return m


def file_of(name):
    full = name if name.startswith(PKG) else f"{PKG}.{name}"
    return os.path.join(SRC, *full.split(".")) + ".py"


def source_hashes(names):
    out = {}
    for n in names:
        p = file_of(n)
        try:
            with open(p, "rb") as f:
                out[os.path.relpath(p, REPO)] = hashlib.sha256(f.read()).hexdigest()[:16]
        except OSError:
            out[os.path.relpath(p, REPO)] = "missing"
    return out


# ------------------------------------------------------------------ state left in the package between paths
# The explorer re-executes the harness once per path and relies on every execution starting from the same state.  Mutable
# containers that live at module or class level in the package (caches, registries) would carry entries from one path
# into the next: their contents are snapshotted when first seen and restored before every path.  (Within one path such
# state is kept - what it does to later calls is for the harness to observe.)

_STATE = {}


def _containers():
    import inspect
    for name, m in list(sys.modules.items()):
        if m is None or not (name == PKG or name.startswith(PKG + ".")):
            continue
        owners = [("", m)]
        for cn, c in list(vars(m).items()):
            if inspect.isclass(c) and getattr(c, "__module__", None) == name:
                owners.append((cn + ".", c))
        for prefix, owner in owners:
            for an, v in list(vars(owner).items()):
                if an.startswith("__") and an.endswith("__"):
                    continue
                if type(v) in (dict, list, set):
                    yield f"{name}:{prefix}{an}", v


def reset_state():
    for key, v in _containers():
        if key not in _STATE or _STATE[key][0] is not v:
            _STATE[key] = (v, type(v)(v))          # first sight: remember the contents
            continue
        _, snap = _STATE[key]
        if type(v) is list:
            v[:] = snap
        else:
            v.clear()
            v.update(snap)
