"""Decoder and structural validator for the Neuroglancer compressed_segmentation format,
written from the format text only (independent of the package).  Works on SBytes whose
header fields are concrete (encoder output) and whose table/value bytes are symbolic."""
import builtins

import z3

from ..core import OutsideModel
from ..sbytes import SBytes, byte_bv

VALID_BITS = (0, 1, 2, 4, 8, 16, 32)


class SpecError(Exception):
    pass


def _u32(buf, off):
    if off < 0 or off + 4 > len(buf):
        raise SpecError(f"read of 4 bytes at {off} outside file of {len(buf)} bytes")
    w = buf.word(off, 4)
    if not isinstance(w, builtins.int):
        w = z3.simplify(w)
        if z3.is_bv_value(w):
            return w.as_long()
        raise OutsideModel("symbolic header word in spec decoder")
    return w


def _term(buf, off, n):
    if off < 0 or off + n > len(buf):
        raise SpecError(f"read of {n} bytes at {off} outside file of {len(buf)} bytes")
    w = buf.word(off, n)
    return z3.BitVecVal(w, 8 * n) if isinstance(w, builtins.int) else w


def spec_decode(buf, C, shape_zyx, block_xyz, itemsize):
    """Returns (decoded, conds): decoded[c][z][y][x] = z3 BV(8*itemsize) terms and a list of z3
    conditions that must hold for the file to be well formed (table indices in range).
    Raises SpecError for structural violations."""
    if not isinstance(buf, SBytes):
        buf = SBytes(buf)
    Z, Y, X = shape_zyx
    bx, by, bz = block_xyz
    gx, gy, gz = -(-X // bx), -(-Y // by), -(-Z // bz)
    conds = []
    out = [[[[None] * X for _ in range(Y)] for _ in range(Z)] for _ in range(C)]
    L = len(buf)
    for c in range(C):
        ch = 4 * _u32(buf, 4 * c)
        if ch < 4 * C or ch > L:
            raise SpecError(f"channel {c} offset {ch} outside data area")
        for z in range(gz):
            for y in range(gy):
                for x in range(gx):
                    h = ch + 8 * (x + gx * (y + gy * z))
                    w0, w1 = _u32(buf, h), _u32(buf, h + 4)
                    bits = w0 >> 24
                    lut = ch + 4 * (w0 & 0xFFFFFF)
                    vals = ch + 4 * w1
                    if bits not in VALID_BITS:
                        raise SpecError(f"invalid bit width {bits}")
                    nvox = bx * by * bz
                    nwords = -(-nvox * bits // 32) if bits else 0
                    if bits and vals + 4 * nwords > L:
                        raise SpecError("encoded values run past the end of the file")
                    avail = (L - lut) // itemsize if lut <= L else -1
                    if avail < 1:
                        raise SpecError("lookup table outside the file")
                    nent = min(1 << bits, avail)
                    table = [_term(buf, lut + itemsize * j, itemsize) for j in range(nent)]
                    for dz in range(bz):
                        for dy in range(by):
                            for dx in range(bx):
                                zz, yy, xx = z * bz + dz, y * by + dy, x * bx + dx
                                if zz >= Z or yy >= Y or xx >= X:
                                    continue
                                if bits == 0:
                                    out[c][zz][yy][xx] = table[0]
                                    continue
                                off = dx + bx * (dy + by * dz)
                                word = _term(buf, vals + 4 * (off * bits // 32), 4)
                                idx = z3.LShR(word, (off * bits) % 32) & ((1 << bits) - 1)
                                idx = z3.simplify(idx)
                                if z3.is_bv_value(idx):
                                    # concrete index (concrete packed values): direct look-up
                                    j = idx.as_long()
                                    if j >= nent:
                                        conds.append(z3.BoolVal(False))
                                        j = nent - 1
                                    out[c][zz][yy][xx] = table[j]
                                    continue
                                if nent < (1 << bits):
                                    conds.append(z3.ULT(idx, nent))
                                v = table[nent - 1]
                                for j in reversed(range(nent - 1)):
                                    v = z3.If(idx == j, table[j], v)
                                out[c][zz][yy][xx] = z3.simplify(v)
    return out, conds


# ----------------------------------------------------------------------------- symbolic-header version

def spec_decode_sym(ctx, buf, C, shape_zyx, block_xyz, itemsize):
    """The same format text, for buffers whose header words are symbolic too: offsets and bit widths are
    resolved by solver-driven case split.  A file is accepted (conservative notion of *valid*) when every
    table / value range it references lies inside the file, the block-header arrays of the channels overlap
    neither each other nor the channel table, and every voxel of every block (padding included) indexes an
    existing table entry.  Returns decoded[c][z][y][x] (z3 terms); raises SpecError otherwise."""
    from ..values import SInt, W
    L = len(buf)
    Z, Y, X = shape_zyx
    bx, by, bz = block_xyz
    gx, gy, gz = -(-X // bx), -(-Y // by), -(-Z // bz)
    nblocks = gx * gy * gz
    nvox = bx * by * bz

    def word(off):
        if off < 0 or off + 4 > L:
            raise SpecError("header word outside the file")
        w = buf.word(off, 4)
        if isinstance(w, builtins.int):
            return w
        return SInt(z3.ZeroExt(W - 32, w), "bv", 32)

    def conc(v, hi):
        """concrete value of a symbolic quantity known to lie in [0, hi]; SpecError if it can be larger"""
        if isinstance(v, builtins.int):
            if v > hi:
                raise SpecError("offset beyond the file")
            return v
        if ctx.decide((v > hi).e):
            raise SpecError("offset beyond the file")
        return v.__index__()

    def term(off, n):
        w = buf.word(off, n)
        return z3.BitVecVal(w, 8 * n) if isinstance(w, builtins.int) else w
    if L < 4 * C:
        raise SpecError("file shorter than the channel table")
    out = [[[[None] * X for _ in range(Y)] for _ in range(Z)] for _ in range(C)]
    hdr_ranges = [(0, 4 * C)]
    for c in range(C):
        ch = conc(word(4 * c) * 4, L)
        if ch + 8 * nblocks > L:
            raise SpecError("block headers outside the file")
        # conservative validity: the block-header arrays neither overlap each other nor the channel table
        for a, b in hdr_ranges:
            if ch < b and a < ch + 8 * nblocks:
                raise SpecError("channel headers overlap")
        hdr_ranges.append((ch, ch + 8 * nblocks))
        for z in range(gz):
            for y in range(gy):
                for x in range(gx):
                    h = ch + 8 * (x + gx * (y + gy * z))
                    w0, w1 = word(h), word(h + 4)
                    bits = w0 >> 24 if not isinstance(w0, builtins.int) else w0 >> 24
                    if isinstance(bits, builtins.int):
                        if bits not in VALID_BITS:
                            raise SpecError("invalid bit width")
                    else:
                        ok = z3.Or([bits.e == b for b in VALID_BITS])
                        if not ctx.decide(ok):
                            raise SpecError("invalid bit width")
                        bits = bits.__index__()
                    lut = conc((w0 & 0xFFFFFF) * 4 + ch, L)
                    avail = (L - lut) // itemsize
                    if avail < 1:
                        raise SpecError("lookup table outside the file")
                    nent = min(1 << bits, avail)
                    table = [term(lut + itemsize * j, itemsize) for j in range(nent)]
                    if bits:
                        nwords = -(-nvox * bits // 32)
                        vals = conc(w1 * 4 + ch, L)
                        if vals + 4 * nwords > L:
                            raise SpecError("encoded values outside the file")
                    for dz in range(bz):
                        for dy in range(by):
                            for dx in range(bx):
                                zz, yy, xx = z * bz + dz, y * by + dy, x * bx + dx
                                if bits == 0:
                                    v = table[0]
                                else:
                                    off = dx + bx * (dy + by * dz)
                                    wd = term(vals + 4 * (off * bits // 32), 4)
                                    idx = z3.LShR(wd, (off * bits) % 32) & ((1 << bits) - 1)
                                    if nent < (1 << bits) and ctx.decide(z3.UGE(idx, nent)):
                                        raise SpecError("index beyond the lookup table")
                                    v = table[nent - 1]
                                    for j in reversed(range(nent - 1)):
                                        v = z3.If(idx == j, table[j], v)
                                if zz < Z and yy < Y and xx < X:
                                    out[c][zz][yy][xx] = z3.simplify(v)
    return out
