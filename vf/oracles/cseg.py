"""Decoder and structural validator for the Neuroglancer compressed_segmentation format,
written from the format text only (independent of the package).  Works on SBytes whose
header fields are concrete (encoder output) and whose table/value bytes are symbolic."""
import builtins

import z3

from ..core import OutsideModel
from ..sbytes import SBytes, byte_bv

VALID_BITS = (0, 1, 2, 4, 8, 16, 32)


class SpecError(Exception):
    pass


def _u32(buf, off):
    if off < 0 or off + 4 > len(buf):
        raise SpecError(f"read of 4 bytes at {off} outside file of {len(buf)} bytes")
    w = buf.word(off, 4)
    if not isinstance(w, builtins.int):
        w = z3.simplify(w)
        if z3.is_bv_value(w):
            return w.as_long()
        raise OutsideModel("symbolic header word in spec decoder")
    return w


def _term(buf, off, n):
    if off < 0 or off + n > len(buf):
        raise SpecError(f"read of {n} bytes at {off} outside file of {len(buf)} bytes")
    w = buf.word(off, n)
    return z3.BitVecVal(w, 8 * n) if isinstance(w, builtins.int) else w


def spec_decode(buf, C, shape_zyx, block_xyz, itemsize):
    """Returns (decoded, conds): decoded[c][z][y][x] = z3 BV(8*itemsize) terms and a list of z3
    conditions that must hold for the file to be well formed (table indices in range).
    Raises SpecError for structural violations."""
    if not isinstance(buf, SBytes):
        buf = SBytes(buf)
    Z, Y, X = shape_zyx
    bx, by, bz = block_xyz
    gx, gy, gz = -(-X // bx), -(-Y // by), -(-Z // bz)
    conds = []
    out = [[[[None] * X for _ in range(Y)] for _ in range(Z)] for _ in range(C)]
    L = len(buf)
    for c in range(C):
        ch = 4 * _u32(buf, 4 * c)
        if ch < 4 * C or ch > L:
            raise SpecError(f"channel {c} offset {ch} outside data area")
        for z in range(gz):
            for y in range(gy):
                for x in range(gx):
                    h = ch + 8 * (x + gx * (y + gy * z))
                    w0, w1 = _u32(buf, h), _u32(buf, h + 4)
                    bits = w0 >> 24
                    lut = ch + 4 * (w0 & 0xFFFFFF)
                    vals = ch + 4 * w1
                    if bits not in VALID_BITS:
                        raise SpecError(f"invalid bit width {bits}")
                    nvox = bx * by * bz
                    nwords = -(-nvox * bits // 32) if bits else 0
                    if bits and vals + 4 * nwords > L:
                        raise SpecError("encoded values run past the end of the file")
                    avail = (L - lut) // itemsize if lut <= L else -1
                    if avail < 1:
                        raise SpecError("lookup table outside the file")
                    nent = min(1 << bits, avail)
                    table = [_term(buf, lut + itemsize * j, itemsize) for j in range(nent)]
                    for dz in range(bz):
                        for dy in range(by):
                            for dx in range(bx):
                                zz, yy, xx = z * bz + dz, y * by + dy, x * bx + dx
                                if zz >= Z or yy >= Y or xx >= X:
                                    continue
                                if bits == 0:
                                    out[c][zz][yy][xx] = table[0]
                                    continue
                                off = dx + bx * (dy + by * dz)
                                word = _term(buf, vals + 4 * (off * bits // 32), 4)
                                idx = z3.LShR(word, (off * bits) % 32) & ((1 << bits) - 1)
                                if nent < (1 << bits):
                                    conds.append(z3.ULT(idx, nent))
                                v = table[nent - 1]
                                for j in reversed(range(nent - 1)):
                                    v = z3.If(idx == j, table[j], v)
                                out[c][zz][yy][xx] = z3.simplify(v)
    return out, conds
