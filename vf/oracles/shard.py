"""Reader for the Neuroglancer 'neuroglancer_uint64_sharded_v1' format written from the
specification text (sharded.md) only: shard number and minishard number from
hash(id >> preshift_bits), shard file <hex, zero padded to ceil(shard_bits/4)>.shard, shard index of
2**minishard_bits [start,end) pairs (relative to the end of the shard index), minishard index =
[3, n] uint64 array: delta-encoded ids, delta-encoded offsets (relative to the end of the previous
chunk), sizes.  Works on a model file system with symbolic contents; identifier-dependent
choices are resolved by solver-driven forking (ctx.decide / ctx.concretize)."""
import builtins

import z3

from ..core import OutsideModel
from ..sbytes import SBytes
from ..modelfs import z_decompress


class SpecFail(Exception):
    pass


def _word(buf, off):
    if off + 8 > len(buf):
        raise SpecFail(f"read of 8 bytes at {off} beyond {len(buf)}")
    w = buf.word(off, 8)
    return z3.BitVecVal(w, 64) if isinstance(w, builtins.int) else w


def _conc(ctx, w, what):
    w = z3.simplify(w) if not isinstance(w, builtins.int) else w
    if isinstance(w, builtins.int):
        return w
    if z3.is_bv_value(w):
        return w.as_long()
    return ctx.concretize(w)


def shard_and_minishard(chunk_id, m, s, p):
    """(shard number, minishard number) as z3 BV64 terms."""
    ones = z3.BitVecVal((1 << 64) - 1, 64)
    hashed = z3.LShR(chunk_id, p) if p < 64 else z3.BitVecVal(0, 64)

    def low(x, k):
        return x if k >= 64 else x & z3.BitVecVal((1 << k) - 1, 64)
    mini = low(hashed, m)
    shard = low(z3.LShR(hashed, m) if m < 64 else z3.BitVecVal(0, 64), s)
    return z3.simplify(shard), z3.simplify(mini)


def file_name(shard_no, s):
    return format(shard_no, "x").rjust(-(-s // 4), "0") + ".shard"


def structure_of(ctx, files, path, m, idx_enc):
    """Parse one shard file: returns {minishard slot: [(id term, start, end), ...]} with concrete byte
    ranges (absolute, in the file) and checks the structural rules; raises SpecFail."""
    data = files[path]
    if not isinstance(data, SBytes):
        raise SpecFail("shard file is not plain bytes")
    nmini = 1 << m
    hdr = 16 * nmini
    if len(data) < hdr:
        raise SpecFail(f"file shorter ({len(data)}) than the shard index ({hdr})")
    out = {}
    ranges = []
    for slot in range(nmini):
        st = _conc(ctx, _word(data, 16 * slot), "minishard start")
        en = _conc(ctx, _word(data, 16 * slot + 8), "minishard end")
        if st > en:
            raise SpecFail(f"slot {slot}: start {st} > end {en}")
        if en == st:
            out[slot] = []
            continue
        if hdr + en > len(data):
            raise SpecFail(f"slot {slot}: minishard index [{st},{en}) beyond the file")
        ranges.append((hdr + st, hdr + en, f"index of minishard {slot}"))
        raw = data[hdr + st:hdr + en]
        if idx_enc == "gzip":
            try:
                raw = z_decompress(raw)
            except Exception as e:
                raise SpecFail(f"slot {slot}: minishard index does not decompress: {e}")
            raw = raw if isinstance(raw, SBytes) else SBytes(raw)
        if len(raw) % 24:
            raise SpecFail(f"slot {slot}: minishard index length {len(raw)} is not a multiple of 24")
        n = len(raw) // 24
        ents = []
        cid = z3.BitVecVal(0, 64)
        pos = hdr
        for j in range(n):
            cid = z3.simplify(cid + _word(raw, 8 * j))
            off = _conc(ctx, _word(raw, 8 * (n + j)), "offset delta")
            size = _conc(ctx, _word(raw, 8 * (2 * n + j)), "size")
            start = pos + off
            end = start + size
            if end > len(data):
                raise SpecFail(f"slot {slot} entry {j}: data range [{start},{end}) beyond the file ({len(data)})")
            ents.append((cid, start, end))
            if size:
                ranges.append((start, end, f"chunk {j} of minishard {slot}"))
            pos = end
        out[slot] = ents
    ranges.sort()
    for (a0, a1, an), (b0, b1, bn) in zip(ranges, ranges[1:]):
        if b0 < a1:
            raise SpecFail(f"byte ranges overlap: {an} [{a0},{a1}) and {bn} [{b0},{b1})")
    return out


def spec_fetch(ctx, files, scale_dir, chunk_id, m, s, p, idx_enc, data_enc):
    """Fetch one chunk the way a spec-only reader would. Returns (payload SBytes, proof conditions)."""
    sh, mi = shard_and_minishard(chunk_id, m, s, p)
    shard_no = _conc(ctx, sh, "shard number")
    slot = _conc(ctx, mi, "minishard number")
    path = f"{scale_dir}/{file_name(shard_no, s)}"
    if path not in files:
        raise SpecFail(f"shard file {path} missing (have {sorted(files)})")
    struct_ = structure_of(ctx, files, path, m, idx_enc)
    ents = struct_[slot]
    conds = []
    # ids strictly increasing inside the minishard
    for (a, _, _), (b, _, _) in zip(ents, ents[1:]):
        conds.append(z3.ULT(a, b))
    for cid, start, end in ents:
        if ctx.decide(cid == chunk_id):
            raw = files[path][start:end]
            if data_enc == "gzip":
                try:
                    raw = z_decompress(raw)
                except Exception as e:
                    raise SpecFail(f"chunk data does not decompress: {e}")
                raw = raw if isinstance(raw, SBytes) else SBytes(raw)
            return raw, conds
    raise SpecFail(f"identifier not listed in minishard {slot} of {path}")
