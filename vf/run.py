"""Check driver: python -m vf.run <ID> [--tier quick|thorough]

Runs every configuration of the property's harness module in a forked worker,
replays each solver counterexample against the unmodified code in a fresh
interpreter, applies the known-findings protocol, writes the evidence file and
sets the exit status (0 held / 1 violation / 3 harness error)."""
import argparse
import importlib
import json
import multiprocessing as mp
import os
import random
import subprocess
import sys
import time
import traceback

HERE = os.path.dirname(os.path.dirname(os.path.abspath(__file__)))
# evidence and replay files of runs against another tree (VERIF_REPO, mutation runs) must not replace those of /repo
_REPO = os.path.abspath(os.environ.get("VERIF_REPO", "/repo"))
OUT = HERE if _REPO == "/repo" else os.environ.get("VERIF_OUT", os.path.join("/tmp/verif_out", os.path.basename(_REPO)))
HARNESS_ERROR = 3


def load_findings():
    p = os.path.join(HERE, "known_findings.json")
    try:
        with open(p) as f:
            return json.load(f).get("findings", [])
    except FileNotFoundError:
        return []


def open_findings(prop):
    return [f for f in load_findings() if f.get("property") == prop and f.get("status") == "open"]


def _worker(args):
    modname, cfg, seed = args
    t0 = time.time()
    try:
        os.environ["VERIF_IN_WORKER"] = "1"
        import logging
        logging.disable(logging.CRITICAL)
        import resource
        try:
            resource.setrlimit(resource.RLIMIT_AS, (6 << 30, 6 << 30))
        except Exception:
            pass
        m = importlib.import_module(modname)
        from . import core
        fn = getattr(m, "H_" + cfg["harness"])
        ex = core.Explorer(timeout_ms=cfg.get("timeout_ms", 20000),
                           max_paths=cfg.get("max_paths", 50000),
                           max_cex=cfg.get("max_cex", 3),
                           wall_budget=cfg.get("wall", 300))
        from . import load as _load
        ex.on_path_start = _load.reset_state
        ex.run(lambda ctx: fn(ctx, cfg))
        s = ex.summary()
        s["cfg"] = cfg
        s["error"] = None
        return s
    except BaseException as e:     # noqa
        return dict(cfg=cfg, error="".join(traceback.format_exception(type(e), e, e.__traceback__))[-3000:],
                    paths=0, queries=0, solver_time_s=0, obligations=0, discharged=0,
                    symbolic_obligations=0, inconclusive=[], n_inconclusive=0, cex=[], known_hits={},
                    outcomes={}, reached=0, truncated=False, samples=[], wall_s=time.time() - t0, aborted=0,
                    cross=dict(checked=0, agree=0, unknown=0, disagree=0))


def replay_record(path, timeout=1800):
    """Run the replay in a fresh interpreter: exit 0 = reproduces, 2 = does not."""
    import shutil
    import tempfile
    env = dict(os.environ)
    env.pop("VERIF_IN_WORKER", None)
    # the real code leaves temporary directories behind (spill files of the sharded writer): give every replay its own
    # scratch TMPDIR and remove it afterwards
    scratch = tempfile.mkdtemp(prefix="vf_replay_")
    env["TMPDIR"] = scratch
    try:
        r = subprocess.run([sys.executable, "-m", "vf.replay", path], cwd=HERE, env=env,
                           capture_output=True, text=True, timeout=timeout)
    finally:
        shutil.rmtree(scratch, ignore_errors=True)
    # the verdict line is on stdout; progress bars of the real code fill stderr
    return r.returncode, (r.stderr[-1500:] + "\n" + r.stdout[-1500:])


def main(argv=None):
    ap = argparse.ArgumentParser()
    ap.add_argument("prop")
    ap.add_argument("--tier", default=os.environ.get("VERIF_TIER", "quick"), choices=("quick", "thorough"))
    ap.add_argument("--replay", default=None)
    ap.add_argument("--jobs", type=int, default=int(os.environ.get("VERIF_JOBS", "16")))
    ap.add_argument("--only", default=None, help="run only configurations of this harness name")
    ap.add_argument("--list", action="store_true")
    args = ap.parse_args(argv)
    prop = args.prop.upper()
    seed = int(os.environ.get("VERIF_SEED", "0"))
    modname = f"vf.harness.{prop.lower()}"

    if args.replay:
        rc, out = replay_record(args.replay)
        print(out)
        return {0: 1, 2: 0}.get(rc, HARNESS_ERROR)

    t0 = time.time()
    from . import load
    load.setup_path()
    m = importlib.import_module(modname)
    cfgs = m.configs(args.tier, seed)
    if args.only:
        cfgs = [c for c in cfgs if c["harness"] == args.only]
    rnd = random.Random(seed)
    rnd.shuffle(cfgs)
    # longest first helps the pool finish early
    cfgs.sort(key=lambda c: -c.get("cost", 1))
    if args.list:
        for c in cfgs:
            print(json.dumps(c))
        return 0

    ctx = mp.get_context("fork")
    results = []
    with ctx.Pool(processes=max(1, min(args.jobs, len(cfgs))), maxtasksperchild=1) as pool:
        for r in pool.imap_unordered(_worker, [(modname, c, seed) for c in cfgs]):
            results.append(r)

    errors = [r for r in results if r["error"]]
    findings = {f["id"]: f for f in open_findings(prop)}
    os.makedirs(os.path.join(OUT, "replays"), exist_ok=True)
    os.makedirs(os.path.join(OUT, "evidence"), exist_ok=True)

    violations = []
    known_confirmed = {}
    harness_errors = [f"worker error in {r['cfg']}: {r['error']}" for r in errors]
    n_replays = 0
    # --- counterexamples outside all known regions
    seen = 0
    for r in results:
        for cex in r["cex"]:
            seen += 1
            if len(violations) >= 3 or n_replays >= 10:
                continue
            rec = dict(property=prop, module=modname, cfg=r["cfg"], cex=cex)
            path = os.path.join(OUT, "replays", f"{prop}_{len(violations) + 1}.json")
            with open(path, "w") as f:
                json.dump(rec, f, indent=1, default=str)
            rc, out = replay_record(path)
            n_replays += 1
            if rc == 0:
                violations.append((path, rec, out))
            elif rc == 2:
                harness_errors.append(f"counterexample did not reproduce on the real code: cfg={r['cfg']} "
                                      f"label={cex.get('label')} inputs={json.dumps(cex.get('inputs'), default=str)[:500]} :: {out[-600:]}")
                os.replace(path, path.replace(".json", ".nonrepro.json"))
            else:
                harness_errors.append(f"replay crashed (rc={rc}): {out[-800:]}")
    # --- known findings: one confirmed replay per finding id
    for r in results:
        for fid, hit in r["known_hits"].items():
            if fid in known_confirmed:
                known_confirmed[fid]["count"] += hit["count"]
                continue
            if fid not in findings:
                harness_errors.append(f"harness reported unknown finding id {fid}")
                continue
            rec = dict(property=prop, module=modname, cfg=r["cfg"], cex=hit["example"])
            path = os.path.join(OUT, "replays", f"{prop}_known_{fid}.json")
            with open(path, "w") as f:
                json.dump(rec, f, indent=1, default=str)
            rc, out = replay_record(path)
            n_replays += 1
            if rc == 0:
                known_confirmed[fid] = dict(count=hit["count"], replay=path)
            elif rc == 2:
                harness_errors.append(f"known finding {fid}: solver model did not reproduce: {out[-600:]}")
            else:
                harness_errors.append(f"replay crashed (rc={rc}): {out[-800:]}")

    # --- vacuity guard
    for r in results:
        if not r["error"] and r["reached"] == 0 and not r["cfg"].get("may_be_vacuous"):
            harness_errors.append(f"vacuous configuration (no path reached an obligation or allowed outcome): {r['cfg']}")

    tot = lambda k: sum(r[k] for r in results)   # noqa
    inconcl = [dict(cfg=r["cfg"], items=r["inconclusive"][:5], n=r["n_inconclusive"]) for r in results if r["n_inconclusive"]]
    n_inconcl = sum(r["n_inconclusive"] for r in results)
    samples = []
    for r in results:
        for s in r["samples"]:
            if len(samples) < 6:
                samples.append(dict(cfg=r["cfg"], sample=s))
    if not samples:
        samples = [dict(cfg=r["cfg"], paths=r["paths"], obligations=r["obligations"]) for r in results[:3]]
    wall = time.time() - t0
    ev = dict(
        property_id=prop, tier=args.tier, seed=seed, level="other",
        coverage=dict(
            explanation=(f"Bounded symbolic execution of the real functions (operator overloading, z3 deciding "
                         f"every branch and obligation). {m.EXPLANATION}"),
            evaluations=tot("paths"),
            distinct_nontrivial=tot("symbolic_obligations") + sum(len(r["outcomes"]) for r in results),
            rule=("evaluations = symbolic paths explored (each path is a distinct branch-decision sequence); "
                  "distinct_nontrivial = obligations whose final query contained at least one symbolic term, "
                  "plus distinct allowed-outcome classes reached"),
            samples=samples,
            obligations=tot("obligations"), discharged=tot("discharged"),
            inconclusive=n_inconcl, inconclusive_items=inconcl[:10],
            configurations=len(results), queries=tot("queries"),
            solver_time_s=round(sum(r["solver_time_s"] for r in results), 2),
            functions_encoded=m.FUNCTIONS, source_hashes=load.source_hashes(m.MODULES),
            bounds=m.BOUNDS.get(args.tier, m.BOUNDS) if isinstance(m.BOUNDS, dict) else m.BOUNDS,
            outside_claim=getattr(m, "OUTSIDE", []),
            stubs_used=m.STUBS, reachability_witnesses=sum(1 for r in results if r["reached"] > 0),
            replays=n_replays, known_findings_confirmed=sorted(known_confirmed),
            cvc5_cross_check={k: sum(r.get("cross", {}).get(k, 0) for r in results) for k in ("checked", "agree", "unknown", "disagree")},
            outcomes={k: sum(r["outcomes"].get(k, 0) for r in results) for r in results for k in r["outcomes"]},
            truncated_configs=[r["cfg"] for r in results if r["truncated"]][:10],
            exhaustive=False,
            repo=load.REPO,
        ),
        assumptions=m.ASSUMPTIONS,
        wall_s=round(wall, 2),
        violations=len(violations),
    )
    with open(os.path.join(OUT, "evidence", f"{prop}.json"), "w") as f:
        json.dump(ev, f, indent=1, default=str)

    print(f"[{prop}] tier={args.tier} configs={len(results)} paths={tot('paths')} queries={tot('queries')} "
          f"obligations={tot('obligations')} discharged={tot('discharged')} inconclusive={n_inconcl} "
          f"solver={ev['coverage']['solver_time_s']}s wall={wall:.1f}s")
    if os.environ.get("VERIF_VERBOSE"):
        hist = {}
        for r in results:
            for c in r["cex"]:
                k = (c["label"], str(r["cfg"].get("res")), r["cfg"].get("tcs"))
                hist[k] = hist.get(k, 0) + 1
        for k, v in sorted(hist.items())[:80]:
            print("   cex-label:", k, v)
        for r in results:
            if r["obligations"] != r["discharged"] and False:
                print(f"   undischarged: {r['obligations'] - r['discharged']} cex={len(r['cex'])} known={list(r['known_hits'])} inconcl={r['n_inconclusive']} {r['cfg']}")
        for r in sorted(results, key=lambda r: -r["wall_s"])[:6]:
            print(f"   slow: {r['wall_s']:.1f}s paths={r['paths']} queries={r['queries']} {r['cfg']}")
    for it in inconcl[:8]:
        print(f"INCONCLUSIVE {it['cfg']}: {it['items'][:2]} (n={it['n']})")
    for fid, k in known_confirmed.items():
        print(f"KNOWN-FINDING: property={prop} {findings[fid]['what']} [{fid}; {k['count']} path(s); replay={k['replay']}]")
    if any(r.get("cross", {}).get("disagree") for r in results):
        harness_errors.append("z3 and cvc5 disagree on a discharged obligation (see inconclusive items)")
    if harness_errors and not violations:
        for e in harness_errors[:10]:
            print("HARNESS-ERROR", e)
        return HARNESS_ERROR
    if violations:
        # a counterexample that reproduces on the real code is a violation whatever else went wrong in the run
        for e in harness_errors[:10]:
            print("HARNESS-NOTE", e[:400])
        for path, rec, out in violations:
            print(f"VIOLATION property={prop} replay={path}")
            print("   cfg:", json.dumps(rec["cfg"]), "label:", rec["cex"].get("label"), "detail:", rec["cex"].get("detail"))
            print("   inputs:", json.dumps(rec["cex"].get("inputs"), default=str)[:600])
            import re as _re
            rl = [ln for ln in _re.split(r"[\r\n]+", out) if ln.startswith(("REPRODUCED", "NOT REPRODUCED"))]
            if not rl:
                rl = [m.group(0) for m in _re.finditer(r"(?:NOT )?REPRODUCED:[^\r\n]*", out)]
            print("   replay:", rl[-1] if rl else (out.strip().splitlines()[-1] if out.strip() else ""))
        return 1
    return 0


if __name__ == "__main__":
    sys.exit(main())
