"""SArray: a NumPy duck array whose elements are symbolic values.

All index plumbing (slicing views with write-through, reshape, moveaxis, transpose,
flip, stack, concatenate, pad(edge), broadcasting) is delegated to real NumPy on an
``object`` array, so layout semantics are NumPy's own.  Value-level functions are
implemented on z3 terms.
"""
import builtins
import operator

import numpy as real_np
import z3

from .core import OutsideModel, SBool, cur, zbool
from .values import SBV, SInt, W, dtype_bits, np_int_ctor
from .sbytes import SBytes, SByteArray, Part, byte_bv

_INT_KINDS = "ui"


# ----------------------------------------------------------------- element kinds

class SFB:
    """Float element that is only moved: an opaque IEEE bit pattern."""
    __slots__ = ("e", "dtype")
    __array_ufunc__ = None

    def __init__(self, e, dtype):
        self.e, self.dtype = e, real_np.dtype(dtype)

    def mem_bits(self):
        return self.e

    def __zexpr__(self):
        return self.e

    def __repr__(self):
        return f"SFB<{self.dtype}>({self.e})"

    def _nope(self, *a):
        raise OutsideModel("arithmetic on an opaque float element")
    __add__ = __radd__ = __sub__ = __rsub__ = __mul__ = __rmul__ = __truediv__ = _nope
    __lt__ = __le__ = __gt__ = __ge__ = _nope

    def __eq__(self, o):
        raise OutsideModel("comparison of opaque float elements")

    __hash__ = None


class SIV:
    """Integer element carried as an exact z3 Int (always inside its dtype's range)."""
    __slots__ = ("v", "dtype")
    __array_ufunc__ = None

    def __init__(self, v, dtype):
        self.v, self.dtype = v, real_np.dtype(dtype)

    def mem_bits(self):
        bits, _ = dtype_bits(self.dtype)
        return z3.Int2BV(self.v, bits)

    def __zexpr__(self):
        return self.v

    def __repr__(self):
        return f"SIV<{self.dtype}>({self.v})"

    def _cmp(self, o, f):
        if isinstance(o, (builtins.float, real_np.floating)):
            # NumPy compares an integer array with a float scalar in float64: a 64-bit integer is first rounded to
            # the nearest double (exact below 2**53); narrower integers are exact
            from fractions import Fraction
            if o != o or o in (builtins.float("inf"), -builtins.float("inf")):
                raise OutsideModel("comparison of an integer element with a non-finite float")
            if self.dtype.itemsize >= 8:
                return f(SDy.rounded(self.v, 0, 64, real_np.float64), SDy.of(builtins.float(o)))
            q = Fraction(builtins.float(o))
            return SBool(f(self.v * q.denominator, q.numerator))
        ov = o.v if isinstance(o, SIV) else builtins.int(o)
        return SBool(f(self.v, ov))

    def __lt__(self, o): return self._cmp(o, operator.lt)
    def __le__(self, o): return self._cmp(o, operator.le)
    def __gt__(self, o): return self._cmp(o, operator.gt)
    def __ge__(self, o): return self._cmp(o, operator.ge)
    def __eq__(self, o): return self._cmp(o, operator.eq)
    def __ne__(self, o): return self._cmp(o, operator.ne)
    __hash__ = None


class SDy:
    """Exact dyadic rational m * 2**e standing for a float64 (or float32) value.

    IEEE-754 arithmetic returns the exact result rounded to nearest-even: when the tracked
    magnitude bound (|m| < 2**nb) shows the exact result representable it is kept as is,
    otherwise the rounding is modelled exactly by a case split on the bit length
    (``rounded``).  Overflow and subnormal results are outside the model (OutsideModel)."""
    __slots__ = ("m", "e", "nb", "dtype")
    __array_ufunc__ = None
    PREC = {8: 53, 4: 24}

    EMIN = {8: -1074, 4: -149}
    EMAX = {8: 1023, 4: 127}

    def __bool__(self):
        # truth value of a float: non-zero (a symbolic fork)
        return cur().decide(self.m != 0)

    def __init__(self, m, e, nb, dtype=real_np.float64, chk=True):
        self.m, self.e, self.nb, self.dtype = m, e, nb, real_np.dtype(dtype)
        sz = self.dtype.itemsize
        if chk and nb > self.PREC[sz]:
            raise OutsideModel(f"float result not provably representable ({nb} bits)")
        if e < self.EMIN[sz] or e + nb > self.EMAX[sz] + 1:
            raise OutsideModel("float exponent out of the modelled range (subnormal/overflow)")

    @staticmethod
    def rounded(m, e, nb, dtype):
        """Exact model of rounding the value m*2**e (|m| < 2**nb) to the nearest float of dtype,
        ties to even: case split (by forking) on the bit length of m when it exceeds the precision."""
        dtype = real_np.dtype(dtype)
        prec = SDy.PREC[dtype.itemsize]
        if nb <= prec:
            return SDy(m, e, nb, dtype)
        ctx = cur()
        am = z3.If(m >= 0, m, -m)
        if ctx.decide(am < (1 << prec)):
            return SDy(m, e, prec, dtype)
        for L in range(prec + 1, nb + 1):
            if L == nb or ctx.decide(am < (1 << L)):
                k = L - prec
                d = 1 << k
                q = m / d           # floor (z3 Int division by a positive constant)
                r = m % d
                h = d // 2
                up = z3.Or(r > h, z3.And(r == h, q % 2 == 1))
                # the carry case |m'| == 2**prec is representable as well
                return SDy(z3.simplify(q + z3.If(up, 1, 0)), e + k, prec + 1, dtype, chk=False)
        raise AssertionError

    @staticmethod
    def of(x, dtype=real_np.float64):
        if isinstance(x, SDy):
            return x
        if isinstance(x, SIV):
            bits, signed = dtype_bits(x.dtype)
            return SDy.rounded(x.v, 0, bits, dtype)
        if isinstance(x, (builtins.int, builtins.float, real_np.floating, real_np.integer)):
            if isinstance(x, real_np.floating):
                dtype = x.dtype            # NumPy scalars are strongly typed, python scalars weak
            f = builtins.float(x)   # python/NumPy convert integer constants to the nearest double
            if f != f or f in (builtins.float("inf"), -builtins.float("inf")):
                raise OutsideModel("non-finite float constant")
            n, d = f.as_integer_ratio()
            e = -(d.bit_length() - 1)
            while n and n % 2 == 0:
                n //= 2
                e += 1
            return SDy(z3.IntVal(n), e if n else 0, max(abs(n).bit_length(), 1), dtype)
        raise OutsideModel(f"cannot view {type(x).__name__} as exact float")

    def _align(self, o):
        e = min(self.e, o.e)
        a = self.m * (1 << (self.e - e)) if self.e > e else self.m
        b = o.m * (1 << (o.e - e)) if o.e > e else o.m
        return a, b, e, max(self.nb + self.e - e, o.nb + o.e - e)

    def __add__(self, o):
        if isinstance(o, SRl):
            return NotImplemented
        o = SDy.of(o, self.dtype)
        a, b, e, nb = self._align(o)
        return SDy.rounded(z3.simplify(a + b), e, nb + 1, _fl_res(self, o))
    __radd__ = __add__

    def __sub__(self, o):
        if isinstance(o, SRl):
            return NotImplemented
        o = SDy.of(o, self.dtype)
        a, b, e, nb = self._align(o)
        return SDy.rounded(z3.simplify(a - b), e, nb + 1, _fl_res(self, o))

    def __mul__(self, o):
        if isinstance(o, SRl):
            return NotImplemented
        o = SDy.of(o, self.dtype)
        # power-of-two constants only shift the exponent
        om = z3.simplify(o.m) if isinstance(o.m, z3.ExprRef) else z3.IntVal(o.m)
        if z3.is_int_value(om) and abs(om.as_long()) == 1:
            m = self.m if om.as_long() == 1 else -self.m
            return SDy(z3.simplify(m), self.e + o.e, self.nb, _fl_res(self, o), chk=False)
        return SDy.rounded(z3.simplify(self.m * o.m), self.e + o.e, self.nb + o.nb, _fl_res(self, o))
    __rmul__ = __mul__

    def __truediv__(self, o):
        if isinstance(o, SRl):
            return NotImplemented
        o = SDy.of(o, self.dtype)
        om = z3.simplify(o.m) if isinstance(o.m, z3.ExprRef) else z3.IntVal(o.m)
        if z3.is_int_value(om) and abs(om.as_long()) == 1:
            m = self.m if om.as_long() == 1 else -self.m
            return SDy(z3.simplify(m), self.e - o.e, self.nb, _fl_res(self, o), chk=False)
        raise OutsideModel("float division by a non power of two")

    def _cmp(self, o, f):
        o = SDy.of(o, self.dtype)
        a, b, _, _ = self._align2(o)
        return SBool(f(a, b))

    def _align2(self, o):
        e = min(self.e, o.e)
        a = self.m * (1 << (self.e - e)) if self.e > e else self.m
        b = o.m * (1 << (o.e - e)) if o.e > e else o.m
        return a, b, e, None

    def __lt__(self, o): return self._cmp(o, operator.lt)
    def __le__(self, o): return self._cmp(o, operator.le)
    def __gt__(self, o): return self._cmp(o, operator.gt)
    def __ge__(self, o): return self._cmp(o, operator.ge)
    def __eq__(self, o): return self._cmp(o, operator.eq)
    def __ne__(self, o): return self._cmp(o, operator.ne)
    __hash__ = None

    def rint(self):
        """Round half to even, exact."""
        if self.e >= 0:
            return self
        d = 1 << (-self.e)
        q = self.m / d          # z3 Int div: floor for positive divisor
        r = self.m % d
        h = d // 2
        up = z3.Or(r > h, z3.And(r == h, q % 2 == 1))
        return SDy(z3.simplify(q + z3.If(up, 1, 0)), 0, max(self.nb + self.e, 0) + 2, self.dtype, chk=False)

    def round_dir(self, mode):
        """floor / ceil / trunc, exact."""
        if self.e >= 0:
            return self
        d = 1 << (-self.e)
        fl = self.m / d                 # z3 Int div by a positive constant: floor
        ce = -((-self.m) / d)
        q = {"floor": fl, "ceil": ce, "trunc": z3.If(self.m >= 0, fl, ce)}[mode]
        return SDy(z3.simplify(q), 0, max(self.nb + self.e, 0) + 2, self.dtype, chk=False)

    def clip(self, lo, hi):
        lo, hi = SDy.of(lo), SDy.of(hi)
        e = min(self.e, lo.e, hi.e)
        if e < self.e:
            sm = self.m * (1 << (self.e - e))
        else:
            sm = self.m
        lm = lo.m * (1 << (lo.e - e))
        hm = hi.m * (1 << (hi.e - e))
        nb = max(self.nb + self.e - e, lo.nb + lo.e - e, hi.nb + hi.e - e)
        return SDy(z3.simplify(z3.If(sm < lm, lm, z3.If(sm > hm, hm, sm))), e, nb, self.dtype, chk=False)

    def value_num_den(self):
        """(numerator term, positive denominator int) of the exact value."""
        if self.e >= 0:
            return self.m * (1 << self.e), 1
        return self.m, 1 << (-self.e)

    def to_int_elem(self, dtype):
        """C cast float -> integer: truncation when in range, unspecified otherwise."""
        dtype = real_np.dtype(dtype)
        info = real_np.iinfo(dtype)
        n, d = self.value_num_den()
        if d == 1:
            t = n
        else:
            t = z3.If(n >= 0, n / d, -((-n) / d))
        poison = z3.Int(cur().fresh_name("castpoison"))
        cur().assume(z3.And(poison >= info.min, poison <= info.max))
        return SIV(z3.simplify(z3.If(z3.And(t >= info.min, t <= info.max), t, poison)), dtype)

    def astype_float(self, dtype):
        dtype = real_np.dtype(dtype)
        if dtype.itemsize >= self.dtype.itemsize:
            return SDy(self.m, self.e, self.nb, dtype, chk=False)
        return SDy.rounded(self.m, self.e, self.nb, dtype)

    def __zexpr__(self):
        return self.m

    def __repr__(self):
        return f"SDy({self.m}*2^{self.e})"


def _fl_res(a, b):
    return a.dtype if a.dtype.itemsize >= b.dtype.itemsize else b.dtype


# ----------------------------------------------------------------- element helpers

def fresh_elem(dtype, name, exact_int=False):
    dtype = real_np.dtype(dtype)
    if dtype.kind in _INT_KINDS:
        if exact_int:
            info = real_np.iinfo(dtype)
            v = z3.Int(name)
            cur().assume(z3.And(v >= info.min, v <= info.max))
            return SIV(v, dtype)
        return SBV.var(name, dtype)
    if dtype.kind == "f":
        return SFB(z3.BitVec(name, dtype.itemsize * 8), dtype)
    if dtype.kind == "b":
        return SBool(z3.Bool(name))
    raise OutsideModel(f"symbolic element of dtype {dtype}")


def const_elem(x, dtype):
    dtype = real_np.dtype(dtype)
    if dtype.kind in _INT_KINDS:
        return SBV.const(builtins.int(x), dtype)
    if dtype.kind == "f":
        return SDy.of(x, dtype)
    raise OutsideModel(f"constant element of dtype {dtype}")


def elem_eq(a, b):
    """z3 Bool / python bool for equality of two elements; None if the kinds are incomparable."""
    if a is b:
        return True
    if isinstance(a, SBV) and isinstance(b, SBV):
        if a.bits != b.bits:
            return None
        return _simp_bool(a.e == b.e)
    if isinstance(a, SFB) and isinstance(b, SFB) and a.dtype.itemsize == b.dtype.itemsize:
        return _simp_bool(a.e == b.e)
    if isinstance(a, SIV) and isinstance(b, SIV):
        return _simp_bool(a.v == b.v)
    if isinstance(a, SDy) and isinstance(b, SDy):
        return _simp_bool((a == b).e)
    if isinstance(a, SIV) and isinstance(b, SBV):
        return _simp_bool(a.v == z3.BV2Int(b.e, b.signed))
    if isinstance(a, SBV) and isinstance(b, SIV):
        return elem_eq(b, a)
    if isinstance(a, SBool) and isinstance(b, SBool):
        return _simp_bool(a.e == b.e)
    if isinstance(a, SRl) and isinstance(b, SRl):
        return _simp_bool(a.r == b.r)
    return None


def _simp_bool(c):
    c = z3.simplify(c)
    if z3.is_true(c):
        return True
    if z3.is_false(c):
        return False
    return c


def elem_lt(a, b):
    return zbool(a < b)


def elem_ite(c, a, b):
    if type(a) is not type(b):
        # arrays decoded from mixed sources (exact-integer voxels next to concrete bytes)
        if isinstance(a, SIV) or isinstance(b, SIV):
            a = a if isinstance(a, SIV) else _to_siv(a, b.dtype)
            b = b if isinstance(b, SIV) else _to_siv(b, a.dtype)
        else:
            b = _like(b, a)
    if isinstance(a, SBV):
        return SBV(z3.simplify(z3.If(c, a.e, b.e)), a.dtype)
    if isinstance(a, SIV):
        return SIV(z3.simplify(z3.If(c, a.v, b.v)), a.dtype)
    if isinstance(a, SFB):
        return SFB(z3.simplify(z3.If(c, a.e, b.e)), a.dtype)
    if isinstance(a, SDy):
        x, y, e, nb = a._align(b)
        return SDy(z3.simplify(z3.If(c, x, y)), e, nb, a.dtype, chk=False)
    raise OutsideModel("ite over unsupported element kind")


def _to_siv(x, dtype):
    if isinstance(x, SBV):
        v = z3.simplify(x.e)
        if z3.is_bv_value(v):
            return SIV(z3.IntVal(v.as_signed_long() if x.signed else v.as_long()), dtype)
        return SIV(z3.BV2Int(x.e, x.signed), dtype)
    raise OutsideModel(f"cannot view {type(x).__name__} as an exact integer element")


def _like(new, old):
    """Bring a constant element to the representation kind of ``old``."""
    if type(new) is type(old):
        return new
    if isinstance(old, SIV) and isinstance(new, SBV):
        v = z3.simplify(new.e)
        return SIV(z3.IntVal(v.as_signed_long() if new.signed else v.as_long()), old.dtype)
    if isinstance(old, SBV) and isinstance(new, SIV):
        return SBV(z3.Int2BV(new.v, old.bits), old.dtype)
    raise OutsideModel("mixed element kinds in masked assignment")


def cast_elem(x, dtype, casting="unsafe"):
    """Element-level astype."""
    dtype = real_np.dtype(dtype)
    if isinstance(x, SBV):
        if dtype.kind in _INT_KINDS:
            return x.cast(dtype)
        if dtype.kind == "f":
            # exact integer view of the bit-vector, then the exact rounding model
            bits, signed = dtype_bits(x.dtype)
            return SDy.of(SIV(z3.BV2Int(x.e, signed), x.dtype), dtype)
    if isinstance(x, SIV):
        if dtype.kind in _INT_KINDS:
            info = real_np.iinfo(dtype)
            oinfo = real_np.iinfo(x.dtype)
            if info.min <= oinfo.min and oinfo.max <= info.max:
                return SIV(x.v, dtype)
            span = 1 << (dtype.itemsize * 8)
            w = (x.v - info.min) % span + info.min      # C wrap-around
            return SIV(z3.simplify(w), dtype)
        if dtype.kind == "f":
            return SDy.of(x, dtype)
    if isinstance(x, SFB):
        if dtype.kind == "f" and dtype.itemsize == x.dtype.itemsize:
            return SFB(x.e, dtype)
        raise OutsideModel("conversion of an opaque float element")
    if isinstance(x, SDy):
        if dtype.kind == "f":
            return x.astype_float(dtype)
        if dtype.kind in _INT_KINDS:
            return x.to_int_elem(dtype)
    if isinstance(x, SInt):
        if dtype.kind in _INT_KINDS:
            return np_int_ctor(dtype)(x)
    if isinstance(x, (builtins.int, builtins.float, real_np.number)):
        if dtype.kind in _INT_KINDS:
            return SBV.const(builtins.int(real_np.array(x).astype(dtype)), dtype)
        return SDy.of(x, dtype)
    if isinstance(x, SBool) and dtype.kind == "b":
        return x
    if isinstance(x, SRl) and dtype.kind == "f":
        return SRl(x.r, dtype)
    raise OutsideModel(f"cast of {type(x).__name__} to {dtype}")


def is_elem(x):
    return isinstance(x, (SBV, SFB, SIV, SDy, SRl))


# ----------------------------------------------------------------- the array

def _wrap(a, dtype):
    if isinstance(a, real_np.ndarray):
        return SArray(a, dtype)
    return a


class SArray:
    __array_priority__ = 1000

    def __init__(self, a, dtype, writeable=True):
        self._a = a
        self.dtype = real_np.dtype(dtype)
        self.writeable = writeable

    @property
    def flags(self):
        return _Flags(self)

    def _check_writeable(self):
        if not getattr(self, "writeable", True):
            raise ValueError("assignment destination is read-only")

    # object array access (LazyUnique overrides)
    @property
    def a(self):
        return self._a

    shape = property(lambda s: s.a.shape)
    ndim = property(lambda s: s.a.ndim)
    size = property(lambda s: s.a.size)
    itemsize = property(lambda s: s.dtype.itemsize)
    nbytes = property(lambda s: s.a.size * s.dtype.itemsize)
    T = property(lambda s: SArray(s.a.T, s.dtype))
    flat = property(lambda s: SArray(s.a.reshape(-1), s.dtype))

    def __len__(self):
        return len(self.a)

    @staticmethod
    def fresh(shape, dtype, name, exact_int=False):
        a = real_np.empty(shape, dtype=object)
        for idx in real_np.ndindex(*a.shape):
            a[idx] = fresh_elem(dtype, f"{name}_" + "_".join(map(str, idx)), exact_int)
        return SArray(a, dtype)

    @staticmethod
    def from_elems(elems, dtype, shape=None):
        a = real_np.empty(len(elems), dtype=object)
        for i, x in enumerate(elems):
            a[i] = x
        if shape is not None:
            a = a.reshape(shape)
        return SArray(a, dtype)

    @staticmethod
    def from_concrete(arr):
        arr = real_np.asarray(arr)
        a = real_np.empty(arr.shape, dtype=object)
        for idx in real_np.ndindex(*arr.shape):
            a[idx] = const_elem(arr[idx], arr.dtype)
        return SArray(a, arr.dtype)

    # ---- indexing
    def _sym_take(self, idx):
        """self[idx] along axis 0 for one symbolic index (SBV / SInt): if-then-else chain."""
        n = self.a.shape[0]
        if n == 0:
            raise IndexError("index out of bounds for axis 0 with size 0")
        ie, signed = _index_term(idx)
        oob = _oob(ie, signed, n)
        if cur().decide(oob):
            raise IndexError(f"index out of bounds for axis 0 with size {n}")
        return self._chain(ie, signed, n)

    def _chain(self, ie, signed, n):
        def at(j):
            x = self.a[j]
            if isinstance(x, real_np.ndarray):
                raise OutsideModel("symbolic index into a multi-dimensional array")
            return x
        ies = z3.simplify(ie)
        if z3.is_bv_value(ies) or z3.is_int_value(ies):
            # concrete index (in bounds: the caller has excluded the out-of-bounds case on this path)
            j = ies.as_signed_long() if (z3.is_bv_value(ies) and signed) else ies.as_long()
            return at(j + n if j < 0 else j)
        res = at(n - 1)
        bits = ie.size() if z3.is_bv(ie) else None
        for j in reversed(range(n - 1)):
            c = ie == j
            if signed:
                c = z3.Or(c, ie == j - n)
            res = elem_ite(z3.simplify(c), at(j), res)
        return res

    def __getitem__(self, k):
        if isinstance(k, (SBV, SInt)):
            return self._sym_take(k)
        if isinstance(k, SArray):
            if k.dtype.kind == "b":
                raise OutsideModel("boolean mask indexing")
            n = self.a.shape[0]
            terms = [_index_term(i) for i in k.a.ravel()]
            if n == 0:
                if terms:
                    raise IndexError("index out of bounds for axis 0 with size 0")
                return SArray(real_np.empty(k.shape, dtype=object), self.dtype)
            oob = z3.Or([_oob(ie, s, n) for ie, s in terms]) if terms else z3.BoolVal(False)
            if cur().decide(oob):
                raise IndexError(f"index out of bounds for axis 0 with size {n}")
            out = real_np.empty(k.shape, dtype=object)
            flat = out.reshape(-1)
            for j, (ie, s) in enumerate(terms):
                flat[j] = self._chain(ie, s, n)
            return SArray(out, self.dtype)
        if isinstance(k, tuple) and any(isinstance(x, (SBV, SInt)) for x in k):
            k = tuple(x.__index__() if isinstance(x, (SBV, SInt)) else x for x in k)
        k = _conc_index(k)
        r = self.a[k]
        return _wrap(r, self.dtype)

    def __setitem__(self, k, v):
        self._check_writeable()
        if isinstance(k, SArray) and k.dtype.kind == "b":
            # boolean mask assignment of a scalar: element-wise if-then-else
            if k.shape != self.shape or isinstance(v, (SArray, real_np.ndarray)):
                raise OutsideModel("boolean mask assignment (non-scalar / shape mismatch)")
            new = cast_elem(v, self.dtype)
            flat = self.a.reshape(-1) if self.a.flags.c_contiguous else None
            for idx in real_np.ndindex(*self.shape):
                self.a[idx] = elem_ite(zbool(k.a[idx]), _like(new, self.a[idx]), self.a[idx])
            return
        k = _conc_index(k)
        if isinstance(k, SArray) or (isinstance(k, tuple) and any(isinstance(x, SArray) for x in k)):
            raise OutsideModel("assignment through a symbolic index array")
        if isinstance(k, real_np.ndarray) and self.a.ndim == 1:
            pass
        if isinstance(v, SArray):
            src = v.a
            if v.dtype != self.dtype:
                src = _map(lambda x: cast_elem(x, self.dtype), src)
            self.a[k] = src
        elif isinstance(v, real_np.ndarray):
            self.a[k] = SArray.from_concrete(v.astype(self.dtype)).a
        else:
            self.a[k] = cast_elem(v, self.dtype)

    def __iter__(self):
        for i in range(len(self.a)):
            yield self[i]

    # ---- shape plumbing
    def ravel(self, order="C"):
        return SArray(self.a.ravel(order=order), self.dtype)

    def flatten(self, order="C"):
        return SArray(self.a.flatten(order=order), self.dtype)

    def reshape(self, *s, order="C"):
        if len(s) == 1 and not isinstance(s[0], builtins.int):
            s = s[0]
        return SArray(self.a.reshape(s, order=order), self.dtype)

    def transpose(self, *axes):
        return SArray(self.a.transpose(*axes), self.dtype)

    def swapaxes(self, a1, a2):
        return SArray(self.a.swapaxes(a1, a2), self.dtype)

    @property
    def T(self):
        return SArray(self.a.T, self.dtype)

    def squeeze(self, axis=None):
        return SArray(self.a.squeeze(axis), self.dtype)

    def copy(self, order="C"):
        return SArray(self.a.copy(), self.dtype)

    def view(self, *a, **kw):
        raise OutsideModel("ndarray.view on a symbolic array")

    def fill(self, v):
        self.a.fill(cast_elem(v, self.dtype))

    def item(self, *args):
        x = self.a.item(*args)
        return x.item() if isinstance(x, SBV) else x

    def astype(self, dtype, order="K", casting="unsafe", subok=True, copy=True):
        dtype = real_np.dtype(dtype)
        if not real_np.can_cast(self.dtype, dtype, casting=casting):
            raise TypeError(f"Cannot cast array data from {self.dtype!r} to {dtype!r} "
                            f"according to the rule '{casting}'")
        if dtype == self.dtype and dtype.byteorder == self.dtype.byteorder and not copy:
            return self
        # elements carry values, the byte order only matters in tobytes(): a byte-order change keeps the values
        same_repr = (dtype.kind == self.dtype.kind and dtype.itemsize == self.dtype.itemsize)
        if same_repr:
            out = self.a.copy(order="K") if copy else self.a
            if dtype.kind in _INT_KINDS or dtype.kind == "f":
                out = _map(lambda x: _retag(x, dtype), out)
            return SArray(out, dtype)
        return SArray(_map(lambda x: cast_elem(x, dtype), self.a), dtype)

    def tobytes(self, order="C"):
        n = self.dtype.itemsize
        bs = []
        if order == "A":
            order = "F" if (self.a.flags.f_contiguous and not self.a.flags.c_contiguous) else "C"
        elif order in (None, "K"):
            order = "C"
        big = self.dtype.byteorder == ">" and n > 1
        for x in self.a.ravel(order=order):
            if isinstance(x, SBV) and x.is_concrete():
                bs += list(builtins.int(z3.simplify(x.e).as_long()).to_bytes(n, "big" if big else "little"))
            elif big:
                bs += [Part(x, n - 1 - i, n) for i in range(n)]       # most significant byte first
            else:
                bs += [Part(x, i, n) for i in range(n)]
        return SBytes(bs)

    # ---- arithmetic
    def _binop(self, o, op, reflected=False):
        if isinstance(o, SArray):
            x, y = real_np.broadcast_arrays(self.a, o.a)
            odt = o.dtype
        elif isinstance(o, real_np.ndarray):
            oa = SArray.from_concrete(o)
            x, y = real_np.broadcast_arrays(self.a, oa.a)
            odt = o.dtype
        elif isinstance(o, (list, tuple)):
            return self._binop(real_np.asarray(o), op, reflected)
        else:
            x, y, odt = self.a, None, None
        if y is not None:
            f = (lambda p, q: op(q, p)) if reflected else op
            res = real_np.frompyfunc(f, 2, 1)(x, y) if x.size else real_np.empty(x.shape, dtype=object)
        else:
            if isinstance(o, real_np.generic) and not is_elem(o):
                o = o.item() if not isinstance(o, (real_np.integer, real_np.floating)) else o
            f = (lambda p: op(o, p)) if reflected else (lambda p: op(p, o))
            res = real_np.frompyfunc(f, 1, 1)(x) if x.size else real_np.empty(x.shape, dtype=object)
        if not isinstance(res, real_np.ndarray):
            tmp = real_np.empty((), dtype=object)
            tmp[()] = res
            res = tmp
        dt = None
        if res.size:
            first = res.reshape(-1)[0]
            dt = real_np.dtype(bool) if isinstance(first, (SBool, bool)) else getattr(first, "dtype", None)
        if dt is None:
            dt = real_np.result_type(self.dtype, odt) if odt is not None else self.dtype
        return SArray(res, dt)

    def __add__(self, o): return self._binop(o, operator.add)
    def __radd__(self, o): return self._binop(o, operator.add, True)
    def __sub__(self, o): return self._binop(o, operator.sub)
    def __rsub__(self, o): return self._binop(o, operator.sub, True)
    def __mul__(self, o): return self._binop(o, operator.mul)
    def __rmul__(self, o): return self._binop(o, operator.mul, True)
    def __truediv__(self, o): return self._binop(o, operator.truediv)
    def __rtruediv__(self, o): return self._binop(o, operator.truediv, True)
    def __matmul__(self, o): return h_dot_real(self, o)
    def __rmatmul__(self, o): return h_dot_real(o, self)
    def __neg__(self): return SArray(_map(operator.neg, self.a), self.dtype)
    def __and__(self, o): return self._binop(o, operator.and_)
    def __rand__(self, o): return self._binop(o, operator.and_, True)
    def __or__(self, o): return self._binop(o, operator.or_)
    def __ror__(self, o): return self._binop(o, operator.or_, True)
    def __xor__(self, o): return self._binop(o, operator.xor)
    def __lshift__(self, o): return self._binop(o, operator.lshift)
    def __rshift__(self, o): return self._binop(o, operator.rshift)
    def __lt__(self, o): return self._binop(o, operator.lt)
    def __le__(self, o): return self._binop(o, operator.le)
    def __gt__(self, o): return self._binop(o, operator.gt)
    def __ge__(self, o): return self._binop(o, operator.ge)
    def __eq__(self, o): return self._binop(o, operator.eq)
    def __ne__(self, o): return self._binop(o, operator.ne)
    __hash__ = None

    def __iadd__(self, o):
        r = self._binop(o, operator.add)
        if not real_np.can_cast(r.dtype, self.dtype, "same_kind"):
            raise TypeError("Cannot cast ufunc 'add' output")
        self.a[...] = _map(lambda x: cast_elem(x, self.dtype), r.a) if r.dtype != self.dtype else r.a
        return self

    def __isub__(self, o):
        r = self._binop(o, operator.sub)
        self.a[...] = _map(lambda x: cast_elem(x, self.dtype), r.a) if r.dtype != self.dtype else r.a
        return self

    def __bool__(self):
        if self.a.size != 1:
            raise ValueError("The truth value of an array with more than one element is ambiguous.")
        return bool(self.a.reshape(-1)[0])

    def any(self, axis=None):
        return h_any(self)

    def all(self, axis=None):
        return h_all(self)

    def sum(self, axis=None):
        return h_sum(self)

    def _extreme(self, want_max, axis=None, initial=None, **kw):
        if axis is not None or kw:
            raise OutsideModel("max/min with axis or further options")
        xs = list(self.a.ravel())
        if initial is not None:
            xs.append(cast_elem(initial, self.dtype))
        if not xs:
            raise ValueError("zero-size array to reduction operation %s which has no identity" % ("maximum" if want_max else "minimum"))
        best = xs[0]
        for x in xs[1:]:
            better = zbool(x > best) if want_max else zbool(x < best)
            best = elem_ite(better, x, best)
        return best

    def max(self, axis=None, **kw):
        return self._extreme(True, axis, **kw)

    def min(self, axis=None, **kw):
        return self._extreme(False, axis, **kw)

    def __repr__(self):
        return f"SArray{self.shape}<{self.dtype}>"

    # ---- NumPy protocols
    def __array_ufunc__(self, ufunc, method, *inputs, out=None, **kw):
        if method != "__call__":
            if method == "reduce" and ufunc is real_np.bitwise_or:
                raise OutsideModel("ufunc.reduce")
            return NotImplemented
        name = ufunc.__name__
        if name == "matmul":
            res = h_dot_real(inputs[0], inputs[1])
        elif name in _UFUNC_BIN and len(inputs) == 2:
            a, b = inputs
            op = _UFUNC_BIN[name]
            if isinstance(a, SArray):
                res = a._binop(b, op)
            else:
                res = b._binop(a, op, reflected=True)
        elif name == "rint":
            x = inputs[0]
            res = SArray(_map(_rint_elem, x.a), x.dtype)
        elif name in ("floor", "ceil", "trunc"):
            x = inputs[0]
            res = SArray(_map(lambda v: _round_dir_elem(v, name), x.a), x.dtype)
        else:
            raise OutsideModel(f"ufunc {name}")
        if out is not None:
            o = out[0] if isinstance(out, tuple) else out
            o._check_writeable()
            o.a[...] = _map(lambda x: cast_elem(x, o.dtype), res.a) if res.dtype != o.dtype else res.a
            return o
        return res

    def __array_function__(self, func, types, args, kwargs):
        h = HANDLERS.get(func.__name__)
        if h is None:
            if func.__name__ in _STRUCTURAL:
                return _structural(func, args, kwargs)
            raise OutsideModel(f"numpy.{func.__name__} on a symbolic array")
        return h(*args, **kwargs)

    def __array__(self, *a, **kw):
        raise OutsideModel("implicit conversion of a symbolic array to ndarray")


class _Flags:
    def __init__(self, arr):
        self._arr = arr

    @property
    def writeable(self):
        return getattr(self._arr, "writeable", True)

    @property
    def c_contiguous(self):
        return self._arr.a.flags.c_contiguous

    @property
    def f_contiguous(self):
        return self._arr.a.flags.f_contiguous

    def __getitem__(self, k):
        return getattr(self, k.lower())


def _retag(x, dtype):
    if isinstance(x, SBV):
        return SBV(x.e, dtype)
    if isinstance(x, SIV):
        return SIV(x.v, dtype)
    if isinstance(x, SFB):
        return SFB(x.e, dtype)
    if isinstance(x, SDy):
        return SDy(x.m, x.e, x.nb, dtype, chk=False)
    if isinstance(x, SRl):
        return SRl(x.r, dtype)
    return x


def _map(f, a):
    # like NumPy's default order='K': a Fortran-contiguous input gives a Fortran-contiguous result
    forder = a.ndim > 1 and a.flags.f_contiguous and not a.flags.c_contiguous
    if a.size == 0:
        return real_np.empty(a.shape, dtype=object, order="F" if forder else "C")
    out = real_np.empty(a.shape, dtype=object, order="F" if forder else "C")
    for idx in real_np.ndindex(*a.shape):
        out[idx] = f(a[idx])
    return out


def _round_dir_elem(x, mode):
    if isinstance(x, SDy):
        return x.round_dir(mode)
    if isinstance(x, (SBV, SIV)):
        return x
    raise OutsideModel(f"{mode} of unsupported element")


def _rint_elem(x):
    if isinstance(x, SDy):
        return x.rint()
    if isinstance(x, (SBV, SIV)):
        return x
    raise OutsideModel("rint of unsupported element")


def _index_term(i):
    if isinstance(i, SBV):
        return i.e, i.signed
    if isinstance(i, SInt):
        return i.e, True
    if isinstance(i, SIV):
        return i.v, True
    if isinstance(i, (builtins.int, real_np.integer)):
        return z3.BitVecVal(builtins.int(i), 64), True
    raise OutsideModel("unsupported index element")


def _oob(ie, signed, n):
    if z3.is_bv(ie):
        if signed:
            return z3.Or(ie >= n, ie < -n)
        if n >= 1 << ie.size():
            return z3.BoolVal(False)
        return z3.UGE(ie, n)
    return z3.Or(ie >= n, ie < -n)


def _conc_index(k):
    """Concretise symbolic slice bounds inside an index expression."""
    def conv(x):
        if isinstance(x, slice):
            return slice(*(v.__index__() if isinstance(v, (SInt, SBV)) else v
                           for v in (x.start, x.stop, x.step)))
        if isinstance(x, (SInt, SBV)):
            return x.__index__()
        return x
    if isinstance(k, tuple):
        return tuple(conv(x) for x in k)
    return conv(k)


_UFUNC_BIN = {
    "true_divide": operator.truediv, "divide": operator.truediv, "matmul": None,
    "add": operator.add, "subtract": operator.sub, "multiply": operator.mul,
    "bitwise_and": operator.and_, "bitwise_or": operator.or_, "bitwise_xor": operator.xor,
    "left_shift": operator.lshift, "right_shift": operator.rshift,
    "less": operator.lt, "less_equal": operator.le, "greater": operator.gt,
    "greater_equal": operator.ge, "equal": operator.eq, "not_equal": operator.ne,
}


# ----------------------------------------------------------------- layout-only NumPy functions

# functions that only move elements around (no arithmetic, no comparison of element values): NumPy's own implementation
# on the underlying object arrays is the model
_STRUCTURAL = {"rot90", "roll", "tile", "repeat", "take", "split", "array_split", "hsplit", "vsplit", "dsplit", "hstack", "vstack",
               "dstack", "column_stack", "atleast_1d", "atleast_2d", "diagonal", "fliplr", "flipud", "take_along_axis",
               "delete", "resize", "block", "tril", "triu", "permute_dims", "matrix_transpose"}


def _structural(func, args, kwargs):
    dts = []

    def unwrap(x):
        if isinstance(x, SArray):
            dts.append(x.dtype)
            return x.a
        if isinstance(x, (list, tuple)):
            return type(x)(unwrap(y) for y in x)
        if isinstance(x, (SBV, SInt)):
            return x.__index__()
        return x
    a = unwrap(args)
    k = {n: unwrap(v) for n, v in kwargs.items()}
    if not dts or any(d != dts[0] for d in dts):
        raise OutsideModel(f"numpy.{func.__name__} on arrays of different types")
    if func.__name__ in ("tril", "triu", "resize"):
        raise OutsideModel(f"numpy.{func.__name__} fills with zeros")
    res = func(*a, **k)

    def wrap(r):
        if isinstance(r, real_np.ndarray):
            return SArray(r, dts[0])
        if isinstance(r, (list, tuple)):
            return type(r)(wrap(y) for y in r)
        return r
    return wrap(res)


# ----------------------------------------------------------------- handlers

def h_any(a, axis=None, **kw):
    if axis is not None:
        raise OutsideModel("any(axis)")
    xs = [zbool(x) if isinstance(x, (SBool, bool, real_np.bool_)) else zbool(x != 0) for x in a.a.ravel()]
    return SBool(z3.Or(xs)) if xs else False


def h_count_nonzero(a, axis=None, **kw):
    """number of non-zero elements as a symbolic integer (no fork)"""
    if axis is not None:
        raise OutsideModel("count_nonzero(axis)")
    xs = [zbool(x) if isinstance(x, (SBool, bool, real_np.bool_)) else zbool(x != 0) for x in a.a.ravel()]
    return SInt(z3.Sum([z3.If(c, 1, 0) for c in xs]) if xs else z3.IntVal(0), "int")


def h_flatnonzero(a):
    """indices of the non-zero elements of the flattened array (one fork per symbolic element)"""
    out = []
    for j, x in enumerate(a.a.ravel()):
        if isinstance(x, (SBool, bool, real_np.bool_)):
            nz = bool(x)
        else:
            nz = bool(x != 0)
        if nz:
            out.append(j)
    return real_np.array(out, dtype=real_np.intp)


def h_amax(a, axis=None, **kw):
    return a._extreme(True, axis, **{k: v for k, v in kw.items() if k == "initial"})


def h_amin(a, axis=None, **kw):
    return a._extreme(False, axis, **{k: v for k, v in kw.items() if k == "initial"})


def h_all(a, axis=None, **kw):
    if axis is not None:
        raise OutsideModel("all(axis)")
    xs = [zbool(x) if isinstance(x, (SBool, bool, real_np.bool_)) else zbool(x != 0) for x in a.a.ravel()]
    return SBool(z3.And(xs)) if xs else True


def h_sum(a, axis=None, **kw):
    if axis is not None:
        raise OutsideModel("sum(axis)")
    xs = list(a.a.ravel())
    if not xs:
        if a.dtype.kind in _INT_KINDS:
            return a.dtype.type(0) if a.dtype.itemsize == 8 else real_np.sum(real_np.empty(0, a.dtype))
        return a.dtype.type(0)
    # NumPy sums small unsigned ints in uint64 / signed in int64
    if a.dtype.kind == "u":
        acc_dt = real_np.dtype(real_np.uint64)
    elif a.dtype.kind == "i":
        acc_dt = real_np.dtype(real_np.int64)
    else:
        acc_dt = a.dtype
    acc = cast_elem(xs[0], acc_dt) if acc_dt != a.dtype else xs[0]
    for x in xs[1:]:
        acc = acc + (cast_elem(x, acc_dt) if acc_dt != a.dtype else x)
    return acc


def h_array_equal(a, b, **kw):
    a = _as_sarray(a)
    b = _as_sarray(b)
    if a.shape != b.shape:
        return False
    conds = []
    for x, y in zip(a.a.ravel(), b.a.ravel()):
        c = elem_eq(x, y) if x.dtype == y.dtype else zbool(x == y)
        if c is None:
            c = zbool(x == y)
        if c is False:
            return False
        if c is not True:
            conds.append(c)
    if not conds:
        return True
    return SBool(z3.And(conds))


def _as_sarray(x):
    if isinstance(x, SArray):
        return x
    return SArray.from_concrete(real_np.asarray(x))


def h_pad(ar, pad_width, mode="constant", **kw):
    if not isinstance(ar, SArray):
        # concrete array padded with a symbolic constant
        ar = SArray.from_concrete(ar)
    pad_width = real_np.broadcast_to(real_np.asarray(pad_width), (ar.ndim, 2)).tolist()
    if any(p < 0 for pw in pad_width for p in pw):
        raise ValueError("index can't contain negative values")
    if mode == "constant":
        cv = kw.get("constant_values", 0)
        if isinstance(cv, (list, tuple, real_np.ndarray)):
            raise OutsideModel("per-axis pad constants")
        fill = cast_elem(cv, ar.dtype) if not (is_elem(cv) and cv.dtype == ar.dtype) else cv
        if not is_elem(fill):
            fill = cast_elem(fill, ar.dtype)
        shape = tuple(s + p[0] + p[1] for s, p in zip(ar.shape, pad_width))
        out = real_np.empty(shape, dtype=object)
        out.fill(fill)
        out[tuple(slice(p[0], p[0] + s) for s, p in zip(ar.shape, pad_width))] = ar.a
        return SArray(out, ar.dtype)
    if mode == "edge":
        if any(s == 0 for s in ar.shape):
            raise ValueError("can't extend empty axis using modes other than 'constant' or 'empty'")
        return SArray(real_np.pad(ar.a, pad_width, mode="edge"), ar.dtype)
    raise OutsideModel(f"np.pad mode {mode}")


def h_moveaxis(a, source, destination):
    return SArray(real_np.moveaxis(a.a, source, destination), a.dtype)


def h_swapaxes(a, axis1, axis2):
    return SArray(real_np.swapaxes(a.a, axis1, axis2), a.dtype)


def h_rollaxis(a, axis, start=0):
    return SArray(real_np.rollaxis(a.a, axis, start), a.dtype)


def h_atleast_3d(a):
    return SArray(real_np.atleast_3d(a.a), a.dtype)


def h_transpose(a, axes=None):
    return SArray(real_np.transpose(a.a, axes), a.dtype)


def h_reshape(a, *args, **kw):
    if "newshape" in kw:
        kw["shape"] = kw.pop("newshape")
    return SArray(real_np.reshape(a.a, *args, **kw), a.dtype)


def h_ravel(a, order="C"):
    return a.ravel(order)


def h_flip(a, axis=None):
    return SArray(real_np.flip(a.a, axis), a.dtype)


def h_squeeze(a, axis=None):
    return SArray(real_np.squeeze(a.a, axis), a.dtype)


def h_expand_dims(a, axis):
    return SArray(real_np.expand_dims(a.a, axis), a.dtype)


def _common(arrs):
    arrs = [x if isinstance(x, SArray) else
            (SArray.from_elems([x], x.dtype, ()) if is_elem(x) else SArray.from_concrete(x)) for x in arrs]
    dt = real_np.result_type(*[x.dtype for x in arrs])
    return [x if x.dtype == dt else x.astype(dt) for x in arrs], dt


def h_concatenate(arrs, axis=0, **kw):
    arrs, dt = _common(list(arrs))
    return SArray(real_np.concatenate([x.a for x in arrs], axis=axis), dt)


def h_stack(arrs, axis=0, **kw):
    arrs, dt = _common(list(arrs))
    return SArray(real_np.stack([x.a for x in arrs], axis=axis), dt)


def h_append(arr, values, axis=None):
    if axis is not None:
        raise OutsideModel("np.append(axis)")
    arrs, dt = _common([arr, values])
    return SArray(real_np.concatenate([x.a.ravel() for x in arrs]), dt)


def h_clip(a, a_min=None, a_max=None, out=None, **kw):
    def f(x):
        if isinstance(x, SDy):
            return x.clip(a_min, a_max)
        if isinstance(x, SBV):
            lo, hi = builtins.int(a_min), builtins.int(a_max)
            info = real_np.iinfo(x.dtype)
            r = x
            if lo > info.min:
                if lo > info.max:
                    raise OutsideModel("clip bound beyond dtype")
                r = SBV(z3.simplify(z3.If((r < lo).e, SBV.const(lo, x.dtype).e, r.e)), x.dtype)
            if hi < info.max:
                if hi < info.min:
                    raise OutsideModel("clip bound beyond dtype")
                r = SBV(z3.simplify(z3.If((r > hi).e, SBV.const(hi, x.dtype).e, r.e)), x.dtype)
            return r
        if isinstance(x, SIV):
            lo, hi = builtins.int(a_min), builtins.int(a_max)
            return SIV(z3.simplify(z3.If(x.v < lo, lo, z3.If(x.v > hi, hi, x.v))), x.dtype)
        raise OutsideModel("clip of unsupported element")
    res = SArray(_map(f, a.a), a.dtype)
    if out is not None:
        out._check_writeable()
        out.a[...] = res.a
        return out
    return res


def h_argmax(a, axis=None, **kw):
    if isinstance(a, LazyCounts):
        return LazyArgmax(a.src)
    vals = list(a.a.ravel())
    if not vals:
        raise ValueError("attempt to get argmax of an empty sequence")
    best = vals[0]
    bi = z3.BitVecVal(0, 64)
    for j in range(1, len(vals)):
        c = zbool(vals[j] > best)
        best = elem_ite(c, vals[j], best)
        bi = z3.If(c, z3.BitVecVal(j, 64), bi)
    return SBV(z3.simplify(bi), real_np.int64)


def _count_terms(vals, mult=None):
    """count_i = number of j with v_j == v_i (z3 Int terms); mult = multiplicity of each representative."""
    n = len(vals)
    mult = mult or [1] * n
    eq = [[None] * n for _ in range(n)]
    for i in range(n):
        for j in range(i + 1, n):
            c = elem_eq(vals[i], vals[j])
            c = z3.BoolVal(c) if isinstance(c, bool) else c
            eq[i][j] = eq[j][i] = c
    return [z3.Sum([z3.IntVal(mult[i])] + [z3.If(eq[i][j], mult[j], 0) for j in range(n) if j != i]) for i in range(n)]


class LazyUniqueBase(SArray):
    """Result of np.unique whose length k is only fixed (by forking) when needed."""
    def __init__(self, src, which):
        self.src = src          # shared _UniqueState
        self.which = which
        self.dtype = src.dtype if which == "labels" else real_np.dtype(real_np.int64)

    @property
    def a(self):
        return self.src.force()[self.which].a


class LazyLabels(LazyUniqueBase):
    def __getitem__(self, k):
        if isinstance(k, LazyArgmax) and k.src is self.src:
            return self.src.mode()
        return SArray.__getitem__(self, k)


class LazyCounts(LazyUniqueBase):
    pass


class LazyArgmax:
    def __init__(self, src):
        self.src = src

    def _force(self):
        return h_argmax(self.src.force()["counts"])

    def __index__(self):
        return self._force().__index__()


class _UniqueState:
    def __init__(self, vals, dtype):
        self.vals = vals
        self.dtype = dtype
        self.forced = None

    def force(self):
        if self.forced is None:
            lut, inv, cnt = forked_unique(self.vals, self.dtype)
            self.forced = dict(labels=lut, inverse=inv, counts=cnt)
        return self.forced

    def mode(self):
        """labels[argmax(counts)] by the contracts of unique (sorted labels) and argmax
        (first maximum): the smallest label among those with the maximal count."""
        vals, seen, mult = [], {}, []
        for v in self.vals:
            ze = v.__zexpr__()
            key = (type(v).__name__, ze.get_id() if isinstance(ze, z3.ExprRef) else repr(ze))
            if key not in seen:
                seen[key] = len(vals)
                vals.append(v)
                mult.append(0)
            mult[seen[key]] += 1
        cnts = _count_terms(vals, mult)
        best, bc = vals[0], cnts[0]
        for v, c in zip(vals[1:], cnts[1:]):
            better = z3.Or(c > bc, z3.And(c == bc, elem_lt(v, best)))
            best = elem_ite(z3.simplify(better), v, best)
            bc = z3.If(better, c, bc)
        return best


def forked_unique(vals, dtype):
    """np.unique contract with the number k of distinct values fixed by forking."""
    ctx = cur()
    n = len(vals)
    if n == 0:
        e = SArray(real_np.empty(0, dtype=object), dtype)
        return e, SArray(real_np.empty(0, dtype=object), real_np.int64), SArray(real_np.empty(0, dtype=object), real_np.int64)
    # syntactically identical terms are one representative (keeps large padded blocks cheap)
    reps, mult, rep_of, seen = [], [], [], {}
    for v in vals:
        ze = v.__zexpr__()
        key = (type(v).__name__, ze.get_id() if isinstance(ze, z3.ExprRef) else repr(ze))
        if key not in seen:
            seen[key] = len(reps)
            reps.append(v)
            mult.append(0)
        rep_of.append(seen[key])
        mult[seen[key]] += 1
    m = len(reps)

    def eqz(a, b):
        c = elem_eq(a, b)
        return z3.BoolVal(c) if isinstance(c, bool) else c
    if m >= 24 and all(isinstance(v, SBV) for v in reps):
        sym = [i for i, v in enumerate(reps) if not z3.is_bv_value(z3.simplify(v.e))]
        if len(sym) <= 4:
            return _sparse_unique(ctx, reps, mult, rep_of, sym, dtype, n)
    first = []
    for i in range(m):
        cs = [z3.Not(eqz(reps[i], reps[j])) for j in range(i)]
        first.append(z3.And(cs) if cs else z3.BoolVal(True))
    cnt = z3.Sum([z3.If(f, 1, 0) for f in first])
    k = None
    for kk in range(1, m + 1):
        if kk == m or ctx.decide(cnt == kk):
            k = kk
            if kk == m:
                ctx.assume(cnt == kk)
            break
    tag = ctx.fresh_name("lut")
    lut = [fresh_elem(dtype, f"{tag}_{j}", exact_int=isinstance(vals[0], SIV)) for j in range(k)]
    for j in range(k - 1):
        ctx.assume(elem_lt(lut[j], lut[j + 1]))
    for v in reps:
        ctx.assume(z3.Or([eqz(v, l) for l in lut]))
    for l in lut:
        ctx.assume(z3.Or([eqz(v, l) for v in reps]))
    inv_rep = []
    for v in reps:
        e = z3.BitVecVal(k - 1, 64)
        for j in reversed(range(k - 1)):
            e = z3.If(eqz(v, lut[j]), z3.BitVecVal(j, 64), e)
        inv_rep.append(SBV(z3.simplify(e), real_np.int64))
    inv = [inv_rep[r] for r in rep_of]
    cs = []
    for j in range(k):
        if m == 1:
            cs.append(SBV.const(n, real_np.int64))
        else:
            cs.append(SBV(z3.simplify(z3.Sum([z3.If(eqz(v, lut[j]), z3.BitVecVal(mu, 64), z3.BitVecVal(0, 64))
                                              for v, mu in zip(reps, mult)])), real_np.int64))
    return (SArray.from_elems(lut, dtype), SArray.from_elems(inv, real_np.int64),
            SArray.from_elems(cs, real_np.int64))


def _sparse_unique(ctx, reps, mult, rep_of, sym, dtype, n):
    """np.unique for many concrete values and a few symbolic ones: the concrete ones are sorted concretely; for each
    symbolic value the explorer forks on "equal to table entry j" / "new, with r entries below it" (only the feasible
    cases), so the table layout is concrete on every path and the label itself stays symbolic inside its gap."""
    dt = real_np.dtype(dtype)
    signed = dt.kind == "i"
    bits = dt.itemsize * 8

    def conc(v):
        x = z3.simplify(v.e).as_long()
        return x - (1 << bits) if signed and x >= 1 << (bits - 1) else x
    symset = set(sym)
    cvals = sorted({conc(v) for i, v in enumerate(reps) if i not in symset})
    L = [SBV.const(c, dt) for c in cvals]                 # sorted distinct table, grows by insertion
    lt = (lambda a, b: a < b) if signed else z3.ULT
    where = {}                                            # symbolic representative -> table position
    for i in sym:
        v = reps[i]
        rank = z3.Sum([z3.If(lt(l.e, v.e), 1, 0) for l in L]) if L else z3.IntVal(0)
        r = ctx.concretize(rank)
        if r < len(L) and ctx.decide(v.e == L[r].e):
            where[i] = ("old", r)
            continue
        L = L[:r] + [v] + L[r:]
        for j, (kind, q) in list(where.items()):
            if q >= r:
                where[j] = (kind, q + 1)
        where[i] = ("new", r)
    k = len(L)
    index = {}
    for j, l in enumerate(L):
        le = z3.simplify(l.e)
        if z3.is_bv_value(le):
            index[le.as_long()] = j
    inv_rep = []
    for i, v in enumerate(reps):
        j = where[i][1] if i in symset else index[z3.simplify(v.e).as_long()]
        inv_rep.append(SBV.const(j, real_np.int64))
    inv = [inv_rep[r] for r in rep_of]
    counts = [0] * k
    for i, mu in enumerate(mult):
        counts[z3.simplify(inv_rep[i].e).as_long()] += mu
    cs = [SBV.const(c, real_np.int64) for c in counts]
    return (SArray.from_elems(L, dt), SArray.from_elems(inv, real_np.int64), SArray.from_elems(cs, real_np.int64))


def h_unique(ar, return_index=False, return_inverse=False, return_counts=False, axis=None, **kw):
    if return_index or axis is not None:
        raise OutsideModel("np.unique(return_index/axis)")
    ar = _as_sarray(ar)
    vals = list(ar.a.ravel())
    if return_counts and not return_inverse:
        st = _UniqueState(vals, ar.dtype)
        return LazyLabels(st, "labels"), LazyCounts(st, "counts")
    lut, inv, cnt = forked_unique(vals, ar.dtype)
    out = [lut]
    if return_inverse:
        out.append(inv.reshape(ar.shape))      # NumPy >= 2.0 keeps the input shape
    if return_counts:
        out.append(cnt)
    return tuple(out) if len(out) > 1 else out[0]


def h_dot(a, b, **kw):
    raise OutsideModel("np.dot on symbolic arrays (handled by the real-arithmetic harness)")


def h_can_cast(from_, to, casting="safe"):
    if isinstance(from_, SArray):
        from_ = from_.dtype
    return real_np.can_cast(from_, to, casting)


def h_shape(a):
    return a.shape


def h_ndim(a):
    return a.ndim


def h_size(a):
    return a.size


def h_copy(a, **kw):
    return a.copy()


def h_insert(arr, obj, values, axis=None):
    from .harness._vtk import h_insert as f
    return f(arr, obj, values, axis)


def h_savetxt(fname, X, *a, **kw):
    from .harness._vtk import h_savetxt as f
    return f(fname, X, *a, **kw)


def h_iscomplexobj(a):
    return False


def h_broadcast_to(a, shape, **kw):
    return SArray(real_np.broadcast_to(a.a, shape), a.dtype)


HANDLERS = dict(unique=h_unique, argmax=h_argmax, pad=h_pad, array_equal=h_array_equal,
                moveaxis=h_moveaxis, transpose=h_transpose, reshape=h_reshape, ravel=h_ravel,
                flip=h_flip, squeeze=h_squeeze, expand_dims=h_expand_dims,
                concatenate=h_concatenate, stack=h_stack, append=h_append, clip=h_clip,
                any=h_any, all=h_all, sum=h_sum, dot=h_dot, can_cast=h_can_cast, shape=h_shape,
                ndim=h_ndim, size=h_size, copy=h_copy, insert=h_insert, savetxt=h_savetxt, swapaxes=h_swapaxes, rollaxis=h_rollaxis, atleast_3d=h_atleast_3d, amax=h_amax, amin=h_amin, max=h_amax, min=h_amin, flatnonzero=h_flatnonzero, count_nonzero=h_count_nonzero,
                iscomplexobj=h_iscomplexobj, broadcast_to=h_broadcast_to)


# ----------------------------------------------------------------- structured (record) arrays

class SStructScalar:
    def __init__(self, dtype, values):
        self.dtype, self.values = dtype, values

    def __getitem__(self, k):
        return self.values[k if isinstance(k, str) else self.dtype.names[k]]


class SStructArray:
    """Array of records whose fields are one-byte integers (RGB volumes): one SArray per field plus the memory order.
    ``view`` with another item size takes its layout from NumPy itself (a concrete record array of the same shape and
    order holding byte identifiers is viewed by the real NumPy; exceptions included), the contents stay symbolic."""
    def __init__(self, fields, order="C"):
        self.fields = dict(fields)
        first = next(iter(self.fields.values()))
        for f in self.fields.values():
            if f.dtype.itemsize != 1 or f.shape != first.shape:
                raise OutsideModel("record fields other than one-byte integers of one shape")
        self.dtype = real_np.dtype([(n, f.dtype) for n, f in self.fields.items()])
        self.shape, self.ndim, self.order = first.shape, first.ndim, order
        self.size = first.size

    def _layout(self):
        return real_np.zeros(self.shape, dtype=self.dtype, order=self.order)

    @property
    def flags(self):
        return self._layout().flags

    def __getitem__(self, k):
        if isinstance(k, str):
            return self.fields[k]
        if isinstance(k, tuple) and len(k) == self.ndim and all(isinstance(i, (builtins.int, real_np.integer)) for i in k):
            return SStructScalar(self.dtype, {n: f[k] for n, f in self.fields.items()})
        sub = {n: f[k] for n, f in self.fields.items()}
        if all(isinstance(v, SArray) for v in sub.values()):
            probe = self._layout()[k]
            return SStructArray(sub, "F" if probe.ndim > 1 and probe.flags.f_contiguous and not probe.flags.c_contiguous else "C")
        raise OutsideModel("record array index")

    def view(self, dtype=None, type=None):
        dt = real_np.dtype(_unwrap_dtype(dtype))
        if dt.itemsize != 1:
            raise OutsideModel("record array viewed with a multi-byte type")
        k = len(self.fields)
        if self.size * k > 256:
            raise OutsideModel("record array too large for the layout oracle")
        ids = self._layout()
        flat_ids = real_np.arange(self.size * k, dtype=real_np.uint8).reshape(self.shape + (k,))
        for j, n in enumerate(self.fields):
            ids[n] = flat_ids[..., j]
        v = ids.view(real_np.uint8)                     # NumPy decides shape, order and errors
        names = list(self.fields)
        out = real_np.empty(v.shape, dtype=object, order="F" if v.ndim > 1 and v.flags.f_contiguous and not v.flags.c_contiguous else "C")
        for idx in real_np.ndindex(*v.shape):
            vox, j = divmod(builtins.int(v[idx]), k)
            out[idx] = _retag(self.fields[names[j]].a[real_np.unravel_index(vox, self.shape)], dt)
        return SArray(out, dt)

    def __sarray__(self):
        return self


# ----------------------------------------------------------------- np proxy

class NPProxy:
    """Stand-in for the ``np`` name inside repository modules: real NumPy plus the
    creation functions NumPy does not dispatch."""

    def __init__(self, exact_int=False):
        self._exact_int = exact_int
        self.integer = _np_integer
        for name in ("uint8", "uint16", "uint32", "uint64", "int8", "int16", "int32", "int64"):
            setattr(self, name, _ScalarType(getattr(real_np, name)))

    def __getattr__(self, name):
        return getattr(real_np, name)

    def empty(self, shape, dtype=float, order="C"):
        if not active_ctx():
            return real_np.empty(shape, dtype, order)
        if isinstance(shape, (builtins.int, real_np.integer, SInt, SBV)):
            shape = (shape,)
        shape = tuple(s.__index__() if isinstance(s, (SInt, SBV)) else builtins.int(s) for s in shape)
        dtype = real_np.dtype(_unwrap_dtype(dtype))
        return SArray.fresh(shape, dtype, cur().fresh_name("poison"), self._exact_int)

    def frombuffer(self, buf, dtype=float, count=-1, offset=0):
        dtype = _unwrap_dtype(dtype)
        if not isinstance(buf, SBytes):
            return real_np.frombuffer(buf, dtype, count, offset)
        if buf.is_concrete() and False:
            return real_np.frombuffer(buf.concrete(), dtype, count, offset)
        dt = real_np.dtype(dtype)
        n = dt.itemsize
        if offset < 0 or offset > len(buf.bs):
            raise ValueError("offset must be non-negative and no greater than buffer length")
        bs = buf.bs[offset:]
        if not isinstance(count, builtins.int):
            count = operator.index(count)
        if count < 0:
            if len(bs) % n:
                raise ValueError("buffer size must be a multiple of element size")
        else:
            if count * n > len(bs):
                raise ValueError("buffer is smaller than requested size")
            bs = bs[:count * n]
        if dt.byteorder == ">":
            raise OutsideModel("big-endian frombuffer")
        out = real_np.empty(len(bs) // n, dtype=object)
        for i in range(len(out)):
            out[i] = _elem_from_bytes(bs[i * n:(i + 1) * n], dt)
        return SArray(out, dt)

    def asarray(self, x, dtype=None, **kw):
        dtype = _unwrap_dtype(dtype)
        if hasattr(x, "__sarray__"):
            x = x.__sarray__()
        if isinstance(x, SStructArray):
            if dtype is not None:
                raise OutsideModel("conversion of a record array")
            return x
        if isinstance(x, SArray):
            return x if dtype is None or real_np.dtype(dtype) == x.dtype else x.astype(dtype)
        if is_elem(x):
            a = SArray.from_elems([x], x.dtype, ())
            return a if dtype is None else a.astype(dtype)
        if isinstance(x, (list, tuple)) and _has_sym(x):
            return _array_from_nested(x, dtype)
        return real_np.asarray(x, dtype=dtype, **kw)

    asanyarray = asarray

    def ascontiguousarray(self, x, dtype=None, **kw):
        x = self.asarray(x, dtype)
        return SArray(real_np.ascontiguousarray(x.a), x.dtype) if isinstance(x, SArray) else real_np.ascontiguousarray(x, **kw)

    def asfortranarray(self, x, dtype=None, **kw):
        x = self.asarray(x, dtype)
        return SArray(real_np.asfortranarray(x.a), x.dtype) if isinstance(x, SArray) else real_np.asfortranarray(x, **kw)

    def array(self, x, dtype=None, copy=True, **kw):
        dtype = _unwrap_dtype(dtype)
        if isinstance(x, SArray):
            need = dtype is not None and real_np.dtype(dtype) != x.dtype
            if copy is False and need:
                raise ValueError("Unable to avoid copy while creating an array as requested.\n"
                                 "If using `np.array(obj, copy=False)` replace it with `np.asarray(obj)` "
                                 "to allow a copy when needed (no behavior change in NumPy 1.x).")
            if need:
                return x.astype(dtype)
            return x.copy() if copy else x
        if isinstance(x, (list, tuple)) and _has_sym(x):
            return _array_from_nested(x, dtype)
        return real_np.array(x, dtype=dtype, copy=copy, **kw)

    def dtype(self, x, *a, **kw):
        return real_np.dtype(_unwrap_dtype(x), *a, **kw)

    def iinfo(self, x):
        return real_np.iinfo(_unwrap_dtype(x))

    def issubdtype(self, a, b):
        if b is _np_integer:
            b = real_np.integer
        return real_np.issubdtype(_unwrap_dtype(a), _unwrap_dtype(b))

    def can_cast(self, a, b, casting="safe"):
        if isinstance(a, SArray):
            a = a.dtype
        return real_np.can_cast(_unwrap_dtype(a), _unwrap_dtype(b), casting)

    def promote_types(self, a, b):
        return real_np.promote_types(_unwrap_dtype(a), _unwrap_dtype(b))

    def prod(self, x, *a, **kw):
        if isinstance(x, (list, tuple)) and any(isinstance(v, SInt) for v in x):
            # NumPy multiplies python ints as int64 with silent wrap-around
            r = 1
            for v in x:
                r = r * v
                if isinstance(r, SInt) and r.kind == "int" and not r.is_concrete():
                    # fork on overflow so that the common path keeps the plain product
                    if cur().decide(z3.Or(r.e >= (1 << 63), r.e < -(1 << 63))):
                        r = SInt(((r.e + (1 << 63)) % (1 << 64)) - (1 << 63), "int")
            return r
        return real_np.prod(x, *a, **kw)


class _NpIntegerMeta(type):
    def __instancecheck__(cls, x):
        return isinstance(x, real_np.integer) or isinstance(x, SBV)

    def __subclasscheck__(cls, c):
        return issubclass(c, real_np.integer)


class _np_integer(metaclass=_NpIntegerMeta):
    """np.integer stand-in: symbolic NumPy integer scalars are instances."""


def active_ctx():
    from .core import active
    return active()


class _ScalarType:
    """np.uint64 etc.: callable on symbolic values, otherwise the real scalar type."""
    def __init__(self, real):
        self._real = real
        self._ctor = np_int_ctor(real)
        self.dtype = real_np.dtype(real)

    def __call__(self, x=0):
        return self._ctor(x)

    def __getattr__(self, name):
        return getattr(self._real, name)

    def __eq__(self, o):
        return o is self or o is self._real or (isinstance(o, _ScalarType) and o._real is self._real)

    def __hash__(self):
        return hash(self._real)


def _unwrap_dtype(d):
    return d._real if isinstance(d, _ScalarType) else d


def _has_sym(x):
    if isinstance(x, (list, tuple)):
        return any(_has_sym(v) for v in x)
    return is_elem(x) or isinstance(x, SInt)


def _array_from_nested(x, dtype):
    arr = real_np.empty(real_np.shape(real_np.array([[0 if not isinstance(v, (list, tuple)) else [0] * len(v) for v in x]])[0])
                        if False else _nested_shape(x), dtype=object)
    def fill(sub, idx):
        if isinstance(sub, (list, tuple)):
            for i, v in enumerate(sub):
                fill(v, idx + (i,))
        else:
            arr[idx] = sub
    fill(x, ())
    dt = dtype
    if dt is None:
        # NumPy's own discovery of the common type: symbolic elements stand in as zeros of their type, python / NumPy
        # scalars as themselves (e.g. uint64 elements next to a python int give float64)
        rep = [(v.dtype.type(0) if is_elem(v) else v) for v in arr.ravel()]
        dt = real_np.array(rep).dtype if rep else real_np.dtype(real_np.float64)
        if dt.kind == "O":
            raise OutsideModel("array of mixed elements without a common NumPy type")
    return SArray(_map(lambda v: v if (is_elem(v) and v.dtype == real_np.dtype(dt)) else cast_elem(v, dt), arr), dt)


def _nested_shape(x):
    if isinstance(x, (list, tuple)):
        return (len(x),) + (_nested_shape(x[0]) if len(x) else ())
    return ()


def _elem_from_bytes(bs, dt):
    n = dt.itemsize
    b0 = bs[0]
    if isinstance(b0, Part) and b0.i == 0 and b0.n == n and all(
            isinstance(b, Part) and b.elem is b0.elem and b.i == i for i, b in enumerate(bs)):
        el = b0.elem
        edt = getattr(el, "dtype", None)
        if edt is not None and edt.kind == dt.kind and edt.itemsize == n:
            return _retag(el, dt)
        if isinstance(el, SIV) and dt.kind == "u" and edt.kind == "u":
            return _retag(el, dt)
    if all(isinstance(b, builtins.int) for b in bs):
        v = builtins.int.from_bytes(bytes(bs), "little")
        if dt.kind in _INT_KINDS:
            return SBV.const(v, dt)
        return SFB(z3.BitVecVal(v, 8 * n), dt)
    parts = [byte_bv(b) for b in reversed(bs)]
    w = z3.simplify(z3.Concat(*parts)) if n > 1 else parts[0]
    if dt.kind in _INT_KINDS:
        return SBV(w, dt)
    if dt.kind == "f":
        return SFB(w, dt)
    raise OutsideModel(f"frombuffer dtype {dt}")


# ----------------------------------------------------------------- exact real elements (affine algebra)

class SRl:
    """Exact real number (z3 Real): used only where the claim is about the real-arithmetic meaning
    of a formula (rounding excluded and said so)."""
    __slots__ = ("r", "dtype")
    __array_ufunc__ = None

    def __init__(self, r, dtype=real_np.float64):
        self.r = r
        self.dtype = real_np.dtype(dtype)

    @staticmethod
    def of(x):
        if isinstance(x, SRl):
            return x
        if isinstance(x, (builtins.int, builtins.float, real_np.number)):
            f = builtins.float(x)
            n, d = f.as_integer_ratio()
            return SRl(z3.RealVal(n) / z3.RealVal(d) if d != 1 else z3.RealVal(n))
        if isinstance(x, SBV) and x.is_concrete():
            v = z3.simplify(x.e)
            return SRl(z3.RealVal(v.as_signed_long() if x.signed else v.as_long()))
        if isinstance(x, SDy):
            m = z3.simplify(x.m)
            if z3.is_int_value(m):
                n, d = x.value_num_den()
                return SRl(z3.RealVal(z3.simplify(n).as_long()) / d)
        raise OutsideModel(f"cannot view {type(x).__name__} as an exact real")

    def __add__(self, o): return SRl(z3.simplify(self.r + SRl.of(o).r))
    __radd__ = __add__
    def __sub__(self, o): return SRl(z3.simplify(self.r - SRl.of(o).r))
    def __rsub__(self, o): return SRl(z3.simplify(SRl.of(o).r - self.r))
    def __mul__(self, o): return SRl(z3.simplify(self.r * SRl.of(o).r))
    __rmul__ = __mul__
    def __truediv__(self, o): return SRl(z3.simplify(self.r / SRl.of(o).r))
    def __rtruediv__(self, o): return SRl(z3.simplify(SRl.of(o).r / self.r))
    def __neg__(self): return SRl(z3.simplify(-self.r))
    def __lt__(self, o): return SBool(self.r < SRl.of(o).r)
    def __le__(self, o): return SBool(self.r <= SRl.of(o).r)
    def __gt__(self, o): return SBool(self.r > SRl.of(o).r)
    def __ge__(self, o): return SBool(self.r >= SRl.of(o).r)
    def __eq__(self, o): return SBool(self.r == SRl.of(o).r)
    def __ne__(self, o): return SBool(self.r != SRl.of(o).r)
    __hash__ = None

    def rne(self):
        """round-half-even to an integer, as a z3 Int term"""
        q = z3.ToInt(self.r)            # floor
        fr = self.r - z3.ToReal(q)
        return q + z3.If(z3.Or(fr > z3.RealVal("1/2"), z3.And(fr == z3.RealVal("1/2"), q % 2 == 1)), 1, 0)

    def __round__(self, ndigits=None):
        from .values import SInt
        if ndigits is not None:
            raise OutsideModel("round(x, ndigits) on an exact real")
        return SInt(self.rne(), "int")

    def __zexpr__(self):
        return self.r

    def __repr__(self):
        return f"SRl({self.r})"


def h_dot_real(a, b, **kw):
    a = _as_sarray(a)
    b = _as_sarray(b)
    if a.ndim == 2 and b.ndim == 2:
        out = real_np.empty((a.shape[0], b.shape[1]), dtype=object)
        for i in range(a.shape[0]):
            for j in range(b.shape[1]):
                acc = None
                for k in range(a.shape[1]):
                    t = a.a[i, k] * b.a[k, j]
                    acc = t if acc is None else acc + t
                out[i, j] = acc
        return SArray(out, a.dtype)
    if a.ndim == 2 and b.ndim == 1:
        out = real_np.empty((a.shape[0],), dtype=object)
        for i in range(a.shape[0]):
            acc = None
            for k in range(a.shape[1]):
                t = a.a[i, k] * b.a[k]
                acc = t if acc is None else acc + t
            out[i] = acc
        return SArray(out, a.dtype)
    if a.ndim == 1 and b.ndim == 2:
        out = real_np.empty((b.shape[1],), dtype=object)
        for j in range(b.shape[1]):
            acc = None
            for k in range(a.shape[0]):
                t = a.a[k] * b.a[k, j]
                acc = t if acc is None else acc + t
            out[j] = acc
        return SArray(out, b.dtype)
    if a.ndim == 1 and b.ndim == 1:
        acc = None
        for k in range(a.shape[0]):
            t = a.a[k] * b.a[k]
            acc = t if acc is None else acc + t
        return acc
    raise OutsideModel("np.dot of these shapes")


def h_det(a, **kw):
    a = _as_sarray(a)
    if a.shape != (3, 3):
        raise OutsideModel("determinant of a non 3x3 matrix")
    m = a.a
    return (m[0, 0] * (m[1, 1] * m[2, 2] - m[1, 2] * m[2, 1])
            - m[0, 1] * (m[1, 0] * m[2, 2] - m[1, 2] * m[2, 0])
            + m[0, 2] * (m[1, 0] * m[2, 1] - m[1, 1] * m[2, 0]))


def h_isclose(a, b, rtol=1e-05, atol=1e-08, equal_nan=False):
    """np.isclose on exact scalars: |a - b| <= atol + rtol * |b|"""
    if isinstance(a, SArray) or isinstance(b, SArray):
        raise OutsideModel("np.isclose on symbolic arrays")
    a, b = SRl.of(a), SRl.of(b)
    d = a.r - b.r
    ad = z3.If(d >= 0, d, -d)
    ab = z3.If(b.r >= 0, b.r, -b.r)
    return SBool(ad <= SRl.of(atol).r + SRl.of(rtol).r * ab)


def _scalar_array_function(self, func, types, args, kwargs):
    h = HANDLERS.get(func.__name__)
    if h is None:
        raise OutsideModel(f"numpy.{func.__name__} on a symbolic scalar")
    return h(*args, **kwargs)


for _cls in (SRl, SDy, SIV):
    _cls.__array_function__ = _scalar_array_function

HANDLERS["dot"] = h_dot_real
HANDLERS["det"] = h_det
HANDLERS["isclose"] = h_isclose
