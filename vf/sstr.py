"""Symbolic decimal rendering: format(x, '.Nf') of a symbolic number as an exact integer term.

SDecimal(D, k): the text of the decimal number D / 10**k with k fractional digits, where D is
a z3 Int (already rounded half-to-even like CPython's float formatting, which rounds the exact
binary value correctly).  Its length is obtained by case-splitting the number of digits.
SStr is a concatenation of literal strings and SDecimals."""
import builtins
import re

import z3

from .core import OutsideModel, cur
from .values import SInt, SQuot

_REG = {}


def _register(obj):
    tok = f"\x00S{len(_REG)}\x00"
    _REG[tok] = obj
    return tok


def parse(text):
    """Split a real str that contains marker tokens into literal strings and symbolic parts."""
    if isinstance(text, SStr):
        return list(text.parts)
    out = []
    for piece in re.split("(\x00S\\d+\x00)", str(text)):
        if piece in _REG:
            out.append(_REG[piece])
        elif piece:
            out.append(piece)
    return out


def exact_num_den(x):
    """(numerator z3 Int, positive concrete denominator) of a symbolic number as CPython would compute it."""
    from .sarray import SDy
    if isinstance(x, SInt):
        if x.kind != "int":
            raise OutsideModel("format of BV-backed int")
        return x.e, 1
    if isinstance(x, SQuot):
        a, b = x.a, x.b
        be = z3.simplify(b.e)
        if not z3.is_int_value(be):
            raise OutsideModel("format of a quotient with symbolic divisor")
        d = be.as_long()
        if d <= 0 or d & (d - 1):
            raise OutsideModel("format of a quotient by a non power of two")
        # int / int is the correctly rounded true quotient: exact value a * 2**-k rounded to 53 bits
        k = d.bit_length() - 1
        nb = getattr(x, "nb", 72)
        v = SDy.rounded(a.e, -k, nb, "float64") if a.kind == "int" else None
        return v.value_num_den()
    if isinstance(x, SDy):
        return x.value_num_den()
    raise OutsideModel(f"format of {type(x).__name__}")


class SDecimal:
    def __init__(self, D, k, grouping=False, src=None):
        self.D, self.k, self.grouping, self.src = D, k, grouping, src
        self._ndig = None

    @staticmethod
    def of(x, spec):
        m = re.fullmatch(r"(,?)\.(\d+)f", spec)
        if not m:
            m2 = re.fullmatch(r"(,?)d", spec)
            if m2 and isinstance(x, SInt):
                return SDecimal(x.e, 0, grouping=bool(m2.group(1)), src=x)
            raise OutsideModel(f"format spec {spec!r}")
        k = builtins.int(m.group(2))
        if type(x).__name__ == "SRl":
            from .sarray import SRl
            return SDecimal(SRl(x.r * (10 ** k)).rne(), k, grouping=bool(m.group(1)), src=x)
        n, d = exact_num_den(x)
        num = n * (10 ** k)
        if d == 1:
            D = num
        else:
            q = num / d
            r = num % d
            D = q + z3.If(z3.Or(2 * r > d, z3.And(2 * r == d, q % 2 == 1)), 1, 0)
        return SDecimal(z3.simplify(D), k, grouping=bool(m.group(1)), src=x)

    def int_digits(self):
        """number of digits of the integer part (>= 1), by case split; assumes D >= 0"""
        if self._ndig is None:
            ctx = cur()
            if ctx.decide(self.D < 0):
                raise OutsideModel("negative decimal")
            n = 1
            while not ctx.decide(self.D < 10 ** (self.k + n)):
                n += 1
                if n > 40:
                    raise OutsideModel("decimal too long")
            self._ndig = n
        return self._ndig

    def __len__(self):
        n = self.int_digits()
        if self.grouping:
            n += (n - 1) // 3
        return n + (1 + self.k if self.k else 0)

    def __add__(self, o):
        return SStr([self]) + o

    def __radd__(self, o):
        return SStr([o]) + SStr([self])

    def __format__(self, spec):
        return _register(self)

    def __str__(self):
        return _register(self)

    def __repr__(self):
        return f"SDecimal({self.D}/10^{self.k})"


class SStr:
    def __init__(self, parts):
        self.parts = []
        for p in parts:
            if isinstance(p, SStr):
                self.parts += p.parts
            elif isinstance(p, str):
                self.parts += parse(p)
            else:
                self.parts.append(p)

    def __add__(self, o):
        return SStr(self.parts + [o])

    def __radd__(self, o):
        return SStr([o] + self.parts)

    def __len__(self):
        return sum(len(p) for p in self.parts)

    def __format__(self, spec):
        return _register(self)

    def __str__(self):
        return _register(self)

    def _eq_term(self, o):
        import z3
        from .core import SBool
        o = o if isinstance(o, SStr) else SStr([o])
        a, b = self.parts, o.parts
        if len(a) != len(b):
            raise OutsideModel("comparison of symbolic strings with different structure")
        conds = []
        for x, y in zip(a, b):
            if isinstance(x, str) and isinstance(y, str):
                if x != y:
                    return False
            elif isinstance(x, SDecimal) and isinstance(y, SDecimal) and x.k == y.k and x.grouping == y.grouping:
                conds.append(x.D == y.D)
            else:
                raise OutsideModel("comparison of symbolic strings with different structure")
        if not conds:
            return True
        return SBool(z3.And(conds))

    def __eq__(self, o):
        return self._eq_term(o)

    def __ne__(self, o):
        r = self._eq_term(o)
        if isinstance(r, bool):
            return not r
        return ~r

    __hash__ = None

    def __repr__(self):
        return "SStr(" + "+".join(repr(p) for p in self.parts) + ")"


def _rne_div(num, d):
    """round-half-even of num / d (d a positive concrete int) as a z3 Int"""
    if d == 1:
        return num
    q, r = num / d, num % d
    return q + z3.If(z3.Or(2 * r > d, z3.And(2 * r == d, q % 2 == 1)), 1, 0)


class SDecVal:
    """Result of round(x, k) for a symbolic float: the double nearest to D / 10**k (D a z3 Int).  Decimal values with a
    few digits are ordered and formatted like the decimals themselves: a value that is exactly a tie (x.5 at the digit
    dropped by a shorter format) is exactly representable in binary, so half-to-even applies to it as to the decimal."""
    def __init__(self, D, k):
        self.D, self.k = D, k

    def _cmp(self, o, op):
        from fractions import Fraction
        if isinstance(o, SDecVal):
            kk = max(self.k, o.k)
            return SBoolRef(op(self.D * 10 ** (kk - self.k), o.D * 10 ** (kk - o.k)))
        if isinstance(o, bool) or not isinstance(o, (builtins.int, builtins.float)):
            return NotImplemented
        q = Fraction(o) * 10 ** self.k
        return SBoolRef(op(self.D * q.denominator, q.numerator))

    def __lt__(self, o): return self._cmp(o, lambda a, b: a < b)
    def __le__(self, o): return self._cmp(o, lambda a, b: a <= b)
    def __gt__(self, o): return self._cmp(o, lambda a, b: a > b)
    def __ge__(self, o): return self._cmp(o, lambda a, b: a >= b)
    def __eq__(self, o): return self._cmp(o, lambda a, b: a == b)
    def __ne__(self, o): return self._cmp(o, lambda a, b: a != b)
    __hash__ = None

    def decimal(self, spec):
        m = re.fullmatch(r"(,?)\.(\d+)f", spec)
        if not m:
            raise OutsideModel(f"format spec {spec!r} on a rounded symbolic float")
        n = builtins.int(m.group(2))
        if n >= self.k:
            D = self.D * 10 ** (n - self.k)
        else:
            D = _rne_div(self.D, 10 ** (self.k - n))
        return SDecimal(z3.simplify(D), n, grouping=bool(m.group(1)), src=self)

    def __format__(self, spec):
        return _register(self.decimal(spec))


def SBoolRef(e):
    from .core import SBool
    return SBool(e)


def sym_round(x, ndigits=None):
    """round(x, k) of a symbolic float: exact half-to-even rounding of the double's value to k decimals"""
    if isinstance(x, (SInt,)):
        if ndigits is None or ndigits >= 0:
            return x
        raise OutsideModel("round of an integer to negative digits")
    if isinstance(x, SQuot) or type(x).__name__ in ("SDy",):
        n, d = exact_num_den(x)
        k = ndigits or 0
        if k < 0:
            raise OutsideModel("round to negative digits")
        D = z3.simplify(_rne_div(n * 10 ** k, d))
        if ndigits is None:
            return SInt(D, "int")
        return SDecVal(D, k)
    if isinstance(x, SDecVal):
        if ndigits is not None and ndigits >= x.k:
            return x
        k = ndigits or 0
        D = z3.simplify(_rne_div(x.D, 10 ** (x.k - k)))
        return SInt(D, "int") if ndigits is None else SDecVal(D, k)
    return builtins.round(x) if ndigits is None else builtins.round(x, ndigits)


def sym_format(x, spec=""):
    if isinstance(x, SDecVal):
        return x.decimal(spec)
    if isinstance(x, (SInt, SQuot)) or type(x).__name__ in ("SDy", "SRl"):
        return SDecimal.of(x, spec)
    return builtins.format(x, spec)


def install_format_hooks():
    """f-strings call type(x).__format__: make symbolic numbers render as marker tokens."""
    def _fmt(self, spec):
        if spec == "":
            return _register(self)
        return _register(SDecimal.of(self, spec))
    SInt.__format__ = _fmt
    SQuot.__format__ = _fmt
