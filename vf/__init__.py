"""Solver-based checking of neuroglancer-scripts: symbolic execution of the real
Python source by operator overloading, z3 deciding every path (see DESIGN.md)."""
