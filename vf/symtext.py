"""Symbolic text of concrete length: a sequence of cells, each a literal character or a decimal digit given by a
z3 Int term in 0..9.  Every str operation is computed cell-wise, forking on digit comparisons, so arbitrary
text surgery by the code under test (strip, slicing, search, concatenation, join) stays inside the model.

SymText is a str subclass whose underlying value is one private-use character registered in a table, so that
``"sep".join(...)``, f-strings and ``+`` with literals produce ordinary strings that ``expand`` turns back into cells.

SDecFloat is the double nearest to D * 10**-k for a symbolic integer D with at most 15 significant digits.  For such
doubles ``repr`` is the canonical form of that very decimal (15-digit decimals round-trip through a double and no
shorter digit string can denote the same double), so its text is a function of D's digits; two such doubles are equal
exactly when the decimals are."""
import builtins

import z3

from .core import OutsideModel, SBool, cur
from .values import SInt

_BASE = 0xF0000
_REG = []


class Dg:
    """one decimal digit, value = z3 Int term in 0..9"""
    __slots__ = ("e",)

    def __init__(self, e):
        self.e = e

    def __repr__(self):
        return f"<{z3.simplify(self.e)}>"


def expand(s):
    """cells of a str / SymText (markers expanded)"""
    if isinstance(s, SymText):
        return list(s.cells)
    out = []
    for ch in builtins.str(s) if not isinstance(s, builtins.str) else builtins.str.__str__(s):
        o = ord(ch)
        if _BASE <= o < _BASE + len(_REG):
            out += _REG[o - _BASE].cells
        else:
            out.append(ch)
    return out


def _cell_eq(a, b):
    """truth value of cell a == cell b (forks when a digit cell is involved)"""
    if isinstance(a, builtins.str) and isinstance(b, builtins.str):
        return a == b
    if isinstance(a, Dg) and isinstance(b, Dg):
        return cur().decide(a.e == b.e)
    d, c = (a, b) if isinstance(a, Dg) else (b, a)
    if c not in "0123456789":
        return False
    return cur().decide(d.e == builtins.int(c))


class SymText(builtins.str):
    def __new__(cls, cells):
        cells = list(cells)
        for c in cells:
            assert isinstance(c, Dg) or (isinstance(c, builtins.str) and len(c) == 1), c
        self = builtins.str.__new__(cls, chr(_BASE + len(_REG)))
        self.cells = cells
        _REG.append(self)
        return self

    @staticmethod
    def of(x):
        return x if isinstance(x, SymText) else SymText(expand(x))

    def is_literal(self):
        return all(isinstance(c, builtins.str) for c in self.cells)

    def literal(self):
        return "".join(self.cells)

    # ---- basic protocol
    def __len__(self):
        return len(self.cells)

    def __iter__(self):
        return iter([SymText([c]) for c in self.cells])

    def __getitem__(self, k):
        r = self.cells[k]
        return SymText(r if isinstance(r, list) else [r])

    def __add__(self, o):
        if not isinstance(o, builtins.str):
            return NotImplemented
        return SymText(self.cells + expand(o))

    def __radd__(self, o):
        if not isinstance(o, builtins.str):
            return NotImplemented
        return SymText(expand(o) + self.cells)

    def __mul__(self, n):
        return SymText(self.cells * n)

    __rmul__ = __mul__

    def __format__(self, spec):
        if spec:
            raise OutsideModel(f"format spec {spec!r} on symbolic text")
        return builtins.str.__str__(self)

    def __str__(self):
        return self

    def __repr__(self):
        return "SymText(" + "".join(c if isinstance(c, builtins.str) else repr(c) for c in self.cells) + ")"

    def __hash__(self):
        raise OutsideModel("hash of symbolic text")

    def __bool__(self):
        return bool(self.cells)

    def _eq(self, o):
        oc = expand(o)
        if len(oc) != len(self.cells):
            return False
        return all(_cell_eq(a, b) for a, b in zip(self.cells, oc))

    def __eq__(self, o):
        if not isinstance(o, builtins.str):
            return NotImplemented
        return self._eq(o)

    def __ne__(self, o):
        if not isinstance(o, builtins.str):
            return NotImplemented
        return not self._eq(o)

    def __contains__(self, sub):
        return self.find(sub) >= 0

    # ---- searching
    def _match_at(self, i, sub):
        if i < 0 or i + len(sub) > len(self.cells):
            return False
        return all(_cell_eq(a, b) for a, b in zip(self.cells[i:i + len(sub)], sub))

    def startswith(self, prefix, *a):
        if a:
            raise OutsideModel("startswith with start/end")
        if isinstance(prefix, tuple):
            return any(self.startswith(p) for p in prefix)
        return self._match_at(0, expand(prefix))

    def endswith(self, suffix, *a):
        if a:
            raise OutsideModel("endswith with start/end")
        if isinstance(suffix, tuple):
            return any(self.endswith(p) for p in suffix)
        sub = expand(suffix)
        return self._match_at(len(self.cells) - len(sub), sub)

    def find(self, sub, *a):
        if a:
            raise OutsideModel("find with start/end")
        sub = expand(sub)
        for i in range(len(self.cells) - len(sub) + 1):
            if self._match_at(i, sub):
                return i
        return -1

    def rfind(self, sub, *a):
        if a:
            raise OutsideModel("rfind with start/end")
        sub = expand(sub)
        for i in range(len(self.cells) - len(sub), -1, -1):
            if self._match_at(i, sub):
                return i
        return -1

    def index(self, sub, *a):
        r = self.find(sub, *a)
        if r < 0:
            raise ValueError("substring not found")
        return r

    def count(self, sub, *a):
        if a:
            raise OutsideModel("count with start/end")
        sub = expand(sub)
        if not sub:
            return len(self.cells) + 1
        n = i = 0
        while i + len(sub) <= len(self.cells):
            if self._match_at(i, sub):
                n += 1
                i += len(sub)
            else:
                i += 1
        return n

    # ---- stripping / splitting / replacing
    def _in_set(self, cell, chars):
        if chars is None:
            return isinstance(cell, builtins.str) and cell.isspace()
        return any(_cell_eq(cell, ch) for ch in expand(chars))

    def rstrip(self, chars=None):
        n = len(self.cells)
        while n > 0 and self._in_set(self.cells[n - 1], chars):
            n -= 1
        return SymText(self.cells[:n])

    def lstrip(self, chars=None):
        i = 0
        while i < len(self.cells) and self._in_set(self.cells[i], chars):
            i += 1
        return SymText(self.cells[i:])

    def strip(self, chars=None):
        return self.lstrip(chars).rstrip(chars)

    def removesuffix(self, suffix):
        return SymText(self.cells[:len(self.cells) - len(expand(suffix))]) if self.endswith(suffix) and len(suffix) else self

    def removeprefix(self, prefix):
        return SymText(self.cells[len(expand(prefix)):]) if self.startswith(prefix) and len(prefix) else self

    def partition(self, sep):
        i = self.find(sep)
        if i < 0:
            return self, SymText([]), SymText([])
        n = len(expand(sep))
        return SymText(self.cells[:i]), SymText(self.cells[i:i + n]), SymText(self.cells[i + n:])

    def rpartition(self, sep):
        i = self.rfind(sep)
        if i < 0:
            return SymText([]), SymText([]), self
        n = len(expand(sep))
        return SymText(self.cells[:i]), SymText(self.cells[i:i + n]), SymText(self.cells[i + n:])

    def split(self, sep=None, maxsplit=-1):
        if sep is None:
            raise OutsideModel("whitespace split of symbolic text")
        sub = expand(sep)
        out, start, i = [], 0, 0
        while i + len(sub) <= len(self.cells) and (maxsplit < 0 or len(out) < maxsplit):
            if self._match_at(i, sub):
                out.append(SymText(self.cells[start:i]))
                i += len(sub)
                start = i
            else:
                i += 1
        out.append(SymText(self.cells[start:]))
        return out

    def replace(self, old, new, count=-1):
        old, new = expand(old), expand(new)
        if not old:
            raise OutsideModel("replace of the empty string")
        out, i, n = [], 0, 0
        while i < len(self.cells):
            if (count < 0 or n < count) and self._match_at(i, old):
                out += new
                i += len(old)
                n += 1
            else:
                out.append(self.cells[i])
                i += 1
        return SymText(out)

    def join(self, items):
        out = []
        for j, it in enumerate(items):
            if j:
                out += self.cells
            out += expand(it)
        return SymText(out)

    # ---- character classes / case (digits are unaffected by case mapping)
    def _map(self, f):
        return SymText([c if isinstance(c, Dg) else f(c) for c in self.cells])

    def lower(self):
        return self._map(builtins.str.lower)

    def upper(self):
        return self._map(builtins.str.upper)

    def isdigit(self):
        return bool(self.cells) and all(isinstance(c, Dg) or c.isdigit() for c in self.cells)

    def encode(self, *a, **k):
        raise OutsideModel("encode of symbolic text")


def _outside(name):
    def f(self, *a, **k):
        raise OutsideModel(f"str.{name} on symbolic text")
    f.__name__ = name
    return f


for _n in dir(builtins.str):
    if _n.startswith("__") or _n in SymText.__dict__:
        continue
    if callable(getattr(builtins.str, _n)):
        setattr(SymText, _n, _outside(_n))
for _n in ("__mod__", "__rmod__", "__lt__", "__le__", "__gt__", "__ge__"):
    setattr(SymText, _n, _outside(_n))


# ------------------------------------------------------------------ numbers as text

def _digits(value, n):
    """n digit cells (most significant first) of a term known to lie in [0, 10**n): fresh digit variables tied to the
    value by one linear constraint (a definitional extension: exactly one digit tuple exists for every value)"""
    ctx = cur()
    vs = z3.simplify(value)
    if z3.is_int_value(vs):
        return list("%0*d" % (n, vs.as_long()))
    xs = [z3.Int(ctx.fresh_name("dg")) for _ in range(n)]
    ctx.assume(z3.And([z3.And(x >= 0, x <= 9) for x in xs] + [value == z3.Sum([x * 10 ** (n - 1 - j) for j, x in enumerate(xs)])]))
    return [Dg(x) for x in xs]


def int_cells(term):
    """decimal text of a symbolic integer (sign and digit count by case split)"""
    ctx = cur()
    term = z3.simplify(term)
    neg = ctx.decide(term < 0)
    a = -term if neg else term
    n = 1
    while not ctx.decide(a < 10 ** n):
        n += 1
        if n > 40:
            raise OutsideModel("integer too long")
    return (["-"] if neg else []) + _digits(a, n)


class SDecFloat:
    """the double nearest to D * 10**-k; |D| < 10**15"""
    MAXD = 15
    _sym_number = True

    def __init__(self, D, k):
        self.D, self.k = D, k
        self._layout = None

    # --- digits
    def layout(self):
        """(negative, N total digits, t trailing zeros) of D by case split; N == 0 for D == 0"""
        if self._layout is None:
            ctx = cur()
            D = self.D
            if ctx.decide(D == 0):
                self._layout = (False, 0, 0)
                return self._layout
            neg = ctx.decide(D < 0)
            a = -D if neg else D
            N = 1
            while not ctx.decide(a < 10 ** N):
                N += 1
                if N > self.MAXD:
                    raise OutsideModel("more than 15 significant digits")
            t = 0
            while t < N - 1 and ctx.decide(a % (10 ** (t + 1)) == 0):
                t += 1
            self._layout = (neg, N, t)
        return self._layout

    def repr_cells(self):
        neg, N, t = self.layout()
        if N == 0:
            return list("0.0")
        a = -self.D if neg else self.D
        n = N - t
        a_s = z3.simplify(a)
        if z3.is_int_value(a_s):
            d = z3.IntVal(a_s.as_long() // 10 ** t)
        else:
            d = z3.Int(cur().fresh_name("mant"))
            cur().assume(a == d * 10 ** t)                  # exact on this path (t trailing zeros)
        digs = _digits(d, n)
        decpt = N - self.k
        out = ["-"] if neg else []
        if -4 < decpt <= 16:                                # fixed notation (float_repr_style 'short', format 'r')
            if decpt <= 0:
                out += ["0", "."] + ["0"] * (-decpt) + digs
            elif decpt < n:
                out += digs[:decpt] + ["."] + digs[decpt:]
            else:
                out += digs + ["0"] * (decpt - n) + [".", "0"]
        else:
            e = decpt - 1
            out += digs[:1]
            if n > 1:
                out += ["."] + digs[1:]
            out += ["e", "-" if e < 0 else "+"] + list("%02d" % abs(e))
        return out

    def text(self):
        return SymText(self.repr_cells())

    __repr__ = lambda self: f"SDecFloat({self.D}e{-self.k})"

    def __format__(self, spec):
        if spec:
            raise OutsideModel(f"format spec {spec!r} on a symbolic float")
        return builtins.str.__str__(self.text())

    # --- numeric protocol (what code does to decide how to print a number)
    def sym_int(self):
        D, k = self.D, self.k
        if k <= 0:
            return SInt(D * 10 ** (-k), "int")
        p = 10 ** k
        return SInt(z3.If(D >= 0, D / p, -((-D) / p)), "int")

    def _cmp(self, o, op):
        D, k = self.D, self.k
        if isinstance(o, SDecFloat):
            kk = max(k, o.k)
            return SBool(op(D * 10 ** (kk - k), o.D * 10 ** (kk - o.k)))
        if isinstance(o, SInt):
            o = o.e
        elif isinstance(o, builtins.bool) or not isinstance(o, (builtins.int, builtins.float)):
            return NotImplemented
        elif isinstance(o, builtins.float):
            if o != o or o in (builtins.float("inf"), -builtins.float("inf")):
                raise OutsideModel("comparison with non-finite float")
            if o != builtins.int(o):
                raise OutsideModel("comparison of a symbolic float with a fractional concrete float")
            o = builtins.int(o)
        # integer o: the double nearest to D*10^-k equals o iff the decimal does when o has <= 15 digits; ordering likewise
        if k >= 0:
            return SBool(op(D, o * 10 ** k))
        return SBool(op(D * 10 ** (-k), o))

    def __eq__(self, o):
        return self._cmp(o, lambda a, b: a == b)

    def __ne__(self, o):
        r = self._cmp(o, lambda a, b: a == b)
        return r if r is NotImplemented else ~r

    def __lt__(self, o):
        return self._cmp(o, lambda a, b: a < b)

    def __le__(self, o):
        return self._cmp(o, lambda a, b: a <= b)

    def __gt__(self, o):
        return self._cmp(o, lambda a, b: a > b)

    def __ge__(self, o):
        return self._cmp(o, lambda a, b: a >= b)

    __hash__ = None

    def __neg__(self):
        return SDecFloat(-self.D, self.k)

    def __abs__(self):
        return SDecFloat(z3.If(self.D < 0, -self.D, self.D), self.k)

    def __float__(self):
        raise OutsideModel("symbolic float converted by C code")

    def is_integer(self):
        if self.k <= 0:
            return True
        return bool(SBool(self.D % (10 ** self.k) == 0))


def sym_str(x="", *a):
    if isinstance(x, SDecFloat):
        return x.text()
    if isinstance(x, SymText):
        return x
    if isinstance(x, SInt):
        return SymText(int_cells(x.e))
    r = builtins.str(x, *a)
    return SymText(expand(r)) if any(_BASE <= ord(c) < _BASE + len(_REG) for c in r) else r


def sym_repr(x):
    if isinstance(x, (SDecFloat, SInt)):
        return sym_str(x)
    if isinstance(x, SymText):
        raise OutsideModel("repr of symbolic text")
    return builtins.repr(x)


def sym_float(x=0.0):
    if isinstance(x, SDecFloat):
        return x
    if isinstance(x, SymText):
        raise OutsideModel("float() of symbolic text")
    if isinstance(x, SInt):
        raise OutsideModel("float() of a symbolic integer")
    return builtins.float(x)


def sym_format(x, spec=""):
    if isinstance(x, (SDecFloat, SymText)):
        return x.__format__(spec)
    return builtins.format(x, spec)


class JsonStub:
    """json.dumps for nested lists / dicts of numbers and strings, producing symbolic text"""
    def __init__(self):
        import json
        self._json = json
        self.JSONDecodeError = json.JSONDecodeError

    def __getattr__(self, name):
        return getattr(self._json, name)

    def dumps(self, obj, *, indent=None, separators=None, sort_keys=False, **kw):
        if indent is not None or kw:
            raise OutsideModel("json.dumps options")
        item, key = separators if separators is not None else (", ", ": ")
        return SymText(self._enc(obj, item, key, sort_keys))

    def _enc(self, o, item, key, sort_keys):
        if isinstance(o, SDecFloat):
            return o.repr_cells()
        if isinstance(o, SInt):
            return int_cells(o.e)
        if isinstance(o, SymText):
            if not all(isinstance(c, Dg) or c not in '"\\' and " " <= c <= "~" for c in o.cells):
                raise OutsideModel("json string escaping of symbolic text")
            return ['"'] + list(o.cells) + ['"']
        if isinstance(o, (list, tuple)):
            out = ["["]
            for j, x in enumerate(o):
                if j:
                    out += list(item)
                out += self._enc(x, item, key, sort_keys)
            return out + ["]"]
        if isinstance(o, dict):
            out = ["{"]
            ks = sorted(o) if sort_keys else list(o)
            for j, k in enumerate(ks):
                if j:
                    out += list(item)
                out += self._enc(builtins.str(k), item, key, sort_keys) + list(key) + self._enc(o[k], item, key, sort_keys)
            return out + ["}"]
        return expand(self._json.dumps(o))
