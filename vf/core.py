"""Replay-based depth-first symbolic explorer on top of z3.

A harness is a function ``fn(ctx)`` that builds symbolic inputs, runs the
repository's real code on them and states obligations with ``ctx.prove``.
Whenever Python needs a concrete truth value (or a concrete integer) of a
symbolic term, ``ctx.decide`` / ``ctx.concretize`` asks the solver which
alternatives are feasible under the current path condition, follows one and
queues the others; the harness is re-run with the recorded decision prefix.
"""
import itertools
import time
from fractions import Fraction

import z3


class PathAbort(BaseException):
    """Current path is infeasible (not an outcome)."""


class Inconclusive(BaseException):
    """The path left the modelled fragment / the solver answered unknown."""


class OutsideModel(Inconclusive):
    pass


class StopExploration(BaseException):
    pass


_CUR = None


def cur():
    if _CUR is None:
        raise RuntimeError("no active explorer")
    return _CUR


def active():
    return _CUR is not None


def zval(v):
    """Turn a z3 value into a plain python value."""
    if z3.is_bv_value(v) or z3.is_int_value(v):
        return v.as_long()
    if z3.is_true(v):
        return True
    if z3.is_false(v):
        return False
    if z3.is_rational_value(v):
        return str(Fraction(v.numerator_as_long(), v.denominator_as_long()))
    if z3.is_algebraic_value(v):
        return str(v.approx(20))
    return str(v)


def model_eval(model, x):
    if isinstance(x, z3.ExprRef):
        return zval(model.eval(x, model_completion=True))
    if isinstance(x, dict):
        return {k: model_eval(model, v) for k, v in x.items()}
    if isinstance(x, (list, tuple)):
        return [model_eval(model, v) for v in x]
    if hasattr(x, "__zexpr__"):
        return model_eval(model, x.__zexpr__())
    return x


class Explorer:
    def __init__(self, timeout_ms=20000, max_paths=200000, max_cex=4,
                 wall_budget=None, tactic=None):
        self.solver = z3.Solver() if tactic is None else z3.Tactic(tactic).solver()
        self.solver.set("timeout", timeout_ms)
        self.timeout_ms = timeout_ms
        self.max_paths = max_paths
        self.max_cex = max_cex
        self.wall_budget = wall_budget
        self.prefix = []
        self.trace = []
        self.pending = []
        self.model = None
        self.inputs = {}
        self.regions = []
        self._fresh = itertools.count()
        # statistics
        self.paths = 0
        self.aborted = 0
        self.queries = 0
        self.solver_time = 0.0
        self.obligations = 0
        self.discharged = 0
        self.symbolic_obligations = 0
        self.inconclusive = []
        self.cex = []
        self.known_hits = {}
        self.outcomes = {}
        self.samples = []
        self.reached = 0
        self.truncated = False
        self.t0 = time.time()
        import os as _os
        self.cross_budget = int(_os.environ.get("VERIF_CROSSCHECK", "1"))
        self.cross = dict(checked=0, agree=0, unknown=0, disagree=0)

    # ------------------------------------------------------------------ solver
    def check(self, *extra):
        t = time.time()
        self.queries += 1
        r = str(self.solver.check(*extra))
        self.solver_time += time.time() - t
        return r

    def _get_model(self):
        if self.model is None:
            r = self.check()
            if r == "unsat":
                raise PathAbort()
            if r != "sat":
                raise Inconclusive("solver unknown on path condition")
            self.model = self.solver.model()
        return self.model

    def _add(self, cond):
        self.solver.add(cond)
        if self.model is not None:
            try:
                if not z3.is_true(self.model.eval(cond, model_completion=True)):
                    self.model = None
            except z3.Z3Exception:
                self.model = None

    def fresh_name(self, base):
        return f"{base}!{next(self._fresh)}"

    # --------------------------------------------------------------- branching
    def assume(self, cond):
        if isinstance(cond, bool):
            if not cond:
                raise PathAbort()
            return
        cond = z3.simplify(cond)
        if z3.is_true(cond):
            return
        if z3.is_false(cond):
            raise PathAbort()
        self._add(cond)

    def feasible(self):
        if self.model is not None:
            return True
        r = self.check()
        if r == "sat":
            self.model = self.solver.model()
            return True
        if r == "unsat":
            return False
        raise Inconclusive("solver unknown on path condition")

    def decide(self, cond):
        if isinstance(cond, bool):
            return cond
        cond = z3.simplify(cond)
        if z3.is_true(cond):
            return True
        if z3.is_false(cond):
            return False
        i = len(self.trace)
        if i < len(self.prefix):
            b = self.prefix[i]
            if not isinstance(b, bool):
                raise RuntimeError(f"non-deterministic harness: expected bool decision at {i}, got {b!r}")
        else:
            m = self._get_model()
            b = z3.is_true(m.eval(cond, model_completion=True))
            other = z3.Not(cond) if b else cond
            r = self.check(other)
            if r == "sat":
                self.pending.append(self.trace + [not b])
            elif r != "unsat":
                self.inconclusive.append(("branch", "solver unknown on branch feasibility"))
        self.trace.append(b)
        self._add(cond if b else z3.Not(cond))
        return b

    def concretize(self, expr):
        """Case split a symbolic integer term over all its feasible values."""
        expr = z3.simplify(expr)
        if z3.is_bv_value(expr) or z3.is_int_value(expr):
            return expr.as_long()
        i = len(self.trace)
        excl = ()
        if i < len(self.prefix):
            ent = self.prefix[i]
            if ent[0] == "v":
                self.trace.append(ent)
                self._add(expr == ent[1])
                return ent[1]
            assert ent[0] == "alt"
            excl = ent[1]
            for e in excl:
                self._add(expr != e)
            self.model = None
        m = self._get_model()   # raises PathAbort when no value is left
        v = m.eval(expr, model_completion=True).as_long()
        self.pending.append(self.trace + [("alt", excl + (v,))])
        self.trace.append(("v", v))
        self._add(expr == v)
        return v

    # ------------------------------------------------------------- obligations
    def input(self, name, value):
        self.inputs[name] = value
        return value

    def region(self, fid, cond, labels=None):
        """Declare a known-finding region (predicate over the inputs); with ``labels`` the region only
        covers failures of those obligations, so that any other violation inside it is still reported."""
        self.regions.append((fid, cond, tuple(labels) if labels else None))

    def _record_failure(self, negated, label, detail, exc=None):
        """negated: z3 Bool / python bool that characterises the failing inputs on this path."""
        regs = [(r[0], r[1]) for r in self.regions
                if len(r) < 3 or r[2] is None or any(str(label).startswith(p) for p in r[2])]
        outside = [z3.Not(c) if not isinstance(c, bool) else z3.BoolVal(not c) for _, c in regs]
        extra = [] if isinstance(negated, bool) else [negated]
        found = False
        r = self.check(*(extra + outside))
        if r == "sat":
            m = self.solver.model()
            self.cex.append(dict(kind="violation", label=label, detail=detail, exc=exc,
                                 inputs=model_eval(m, self.inputs), trace_len=len(self.trace)))
            found = True
        elif r != "unsat":
            self.inconclusive.append((label, "solver unknown while extracting counterexample"))
        for fid, c in regs:
            if isinstance(c, bool):
                if not c:
                    continue
                c = z3.BoolVal(True)
            r = self.check(*(extra + [c]))
            if r == "sat":
                hit = self.known_hits.setdefault(fid, dict(count=0, example=None))
                hit["count"] += 1
                if hit["example"] is None:
                    m = self.solver.model()
                    hit["example"] = dict(kind="known", fid=fid, label=label, detail=detail, exc=exc,
                                          inputs=model_eval(m, self.inputs))
                found = True
        if len(self.cex) >= self.max_cex:
            raise StopExploration()
        return found

    def prove(self, cond, label="", detail=None):
        """Obligation: cond must hold for every input on the current path."""
        self.obligations += 1
        self.reached += 1
        if isinstance(cond, bool):
            if cond:
                self.discharged += 1
                return True
            if not self.feasible():
                self.obligations -= 1
                self.reached -= 1
                raise PathAbort()
            self._record_failure(True, label, detail)
            return False
        cond = z3.simplify(cond)
        if z3.is_true(cond):
            self.discharged += 1
            return True
        self.symbolic_obligations += 1
        r = self.check(z3.Not(cond))
        if r == "unsat":
            self.discharged += 1
            if self.cross_budget > 0:
                self.cross_budget -= 1
                self._cross_check(z3.Not(cond), label)
            return True
        if r == "sat":
            if not self._record_failure(z3.Not(cond), label, detail):
                # only infeasible combinations with regions: cannot happen, sat was shown
                self.inconclusive.append((label, "sat but no model extracted"))
            return False
        self.inconclusive.append((label, "solver unknown"))
        return False

    def _cross_check(self, negated, label):
        """Second opinion on a discharged obligation: the same query (path condition + negated obligation) as
        SMT-LIB2 text through cvc5.  'sat' from cvc5 against z3's 'unsat' is a harness error, never a result."""
        try:
            import cvc5
        except Exception:
            return
        s2 = z3.Solver()
        s2.add(self.solver.assertions())
        s2.add(negated)
        txt = "(set-logic ALL)\n" + s2.to_smt2()
        self.cross["checked"] += 1
        try:
            slv = cvc5.Solver()
            slv.setOption("tlimit-per", "8000")
            prs = cvc5.InputParser(slv)
            prs.setStringInput(cvc5.InputLanguage.SMT_LIB_2_6, txt, "q")
            sm = prs.getSymbolManager()
            res = ""
            while True:
                cmd = prs.nextCommand()
                if cmd.isNull():
                    break
                out = str(cmd.invoke(slv, sm)).strip()
                if out in ("sat", "unsat", "unknown"):
                    res = out
        except Exception as e:     # parse problems etc. are inconclusive, not results
            res = "error"
        if res == "unsat":
            self.cross["agree"] += 1
        elif res == "sat":
            self.cross["disagree"] += 1
            self.inconclusive.append((label, "SOLVER DISAGREEMENT: z3 unsat, cvc5 sat"))
        else:
            self.cross["unknown"] += 1

    def fail(self, label, detail=None, exc=None):
        """The current path itself is a violation (e.g. a forbidden exception escaped)."""
        if not self.feasible():
            raise PathAbort()
        self.obligations += 1
        self.reached += 1
        self._record_failure(True, label, detail, exc=exc)

    def ok(self, label="ok"):
        """The current path ends in an allowed outcome that needs no solver query."""
        self.outcomes[label] = self.outcomes.get(label, 0) + 1
        self.reached += 1

    def sample(self, obj):
        if len(self.samples) < 3:
            self.samples.append(obj)

    # ------------------------------------------------------------------- drive
    on_path_start = None

    def run(self, fn):
        global _CUR
        self.pending = [[]]
        try:
            while self.pending:
                if self.paths + self.aborted >= self.max_paths:
                    self.truncated = True
                    self.inconclusive.append(("paths", f"path budget {self.max_paths} exhausted"))
                    break
                if self.wall_budget and time.time() - self.t0 > self.wall_budget:
                    self.truncated = True
                    self.inconclusive.append(("time", f"wall budget {self.wall_budget}s exhausted"))
                    break
                self.prefix = self.pending.pop()
                self.trace = []
                self.inputs = {}
                self.regions = []
                self.model = None
                self._fresh = itertools.count()
                self.solver.push()
                if self.on_path_start is not None:
                    self.on_path_start()
                _CUR = self
                snap = (self.obligations, self.discharged, self.symbolic_obligations, self.reached, dict(self.outcomes))
                try:
                    fn(self)
                    if not self.feasible():      # assumptions turned out unsatisfiable: not a path
                        (self.obligations, self.discharged, self.symbolic_obligations, self.reached, self.outcomes) = snap
                        raise PathAbort()
                    self.paths += 1
                except PathAbort:
                    self.aborted += 1
                except Inconclusive as e:
                    self.paths += 1
                    self.inconclusive.append(("path", f"{type(e).__name__}: {e}"))
                except StopExploration:
                    self.paths += 1
                    self.truncated = True
                    break
                except Exception as e:      # escaped the harness: always a failure
                    self.paths += 1
                    import traceback
                    tb = traceback.extract_tb(e.__traceback__)
                    where = "; ".join(f"{f.name}:{f.lineno}" for f in tb[-4:])
                    try:
                        self.fail("escaped:" + type(e).__name__, detail=where, exc=repr(e)[:300])
                    except StopExploration:
                        self.truncated = True
                        break
                finally:
                    _CUR = None
                    self.solver.pop()
        finally:
            _CUR = None
        return self

    def summary(self):
        return dict(paths=self.paths, aborted=self.aborted, queries=self.queries,
                    solver_time_s=round(self.solver_time, 3), obligations=self.obligations,
                    discharged=self.discharged, symbolic_obligations=self.symbolic_obligations,
                    inconclusive=self.inconclusive[:20], n_inconclusive=len(self.inconclusive),
                    cex=self.cex, known_hits=self.known_hits, outcomes=self.outcomes,
                    reached=self.reached, truncated=self.truncated, samples=self.samples, cross=self.cross,
                    wall_s=round(time.time() - self.t0, 3))


class SBool:
    """Symbolic truth value; taking its truth value forks the exploration."""
    __slots__ = ("e",)
    __array_ufunc__ = None

    def __init__(self, e):
        self.e = e

    def __bool__(self):
        return cur().decide(self.e)

    def __and__(self, o):
        return SBool(z3.And(self.e, zbool(o)))
    __rand__ = __and__

    def __or__(self, o):
        return SBool(z3.Or(self.e, zbool(o)))
    __ror__ = __or__

    def __invert__(self):
        return SBool(z3.Not(self.e))

    def __zexpr__(self):
        return self.e

    def __repr__(self):
        return f"SBool({z3.simplify(self.e)})"


def zbool(x):
    if isinstance(x, SBool):
        return x.e
    if isinstance(x, z3.BoolRef):
        return x
    return z3.BoolVal(bool(x))
