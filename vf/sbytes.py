"""Byte strings of concrete length with symbolic contents, and the struct stand-in.

A byte is a python int, a z3 8-bit term, or a ``Part(elem, i, n)`` = byte i (little
endian) of an n-byte element.  Parts stay un-split as long as bytes are only moved, so
that ``frombuffer(tobytes(x))`` gives x back exactly whatever the element's theory is.
"""
import builtins
import struct as real_struct

import numpy as real_np
import z3

from .core import OutsideModel, SBool, cur
from .values import SBV, SInt, W


class Part:
    __slots__ = ("elem", "i", "n")

    def __init__(self, elem, i, n):
        self.elem, self.i, self.n = elem, i, n

    def bv(self):
        return z3.simplify(z3.Extract(8 * self.i + 7, 8 * self.i, elem_bits(self.elem)))

    def same(self, o):
        return isinstance(o, Part) and self.i == o.i and self.n == o.n and (
            self.elem is o.elem or _same_elem(self.elem, o.elem))

    def __repr__(self):
        return f"Part({self.elem!r},{self.i}/{self.n})"


def _same_elem(a, b):
    try:
        return type(a) is type(b) and z3.eq(a.__zexpr__(), b.__zexpr__()) and a.dtype == b.dtype
    except Exception:
        return False


def elem_bits(elem):
    """Bit pattern (z3 BV) of an array element as stored in memory."""
    if hasattr(elem, "mem_bits"):
        return elem.mem_bits()
    if isinstance(elem, SBV):
        return elem.e
    raise OutsideModel(f"no memory representation for {type(elem).__name__}")


def byte_bv(b):
    if isinstance(b, Part):
        return b.bv()
    if isinstance(b, (builtins.int, real_np.integer)):
        return z3.BitVecVal(builtins.int(b), 8)
    return b


def byte_eq(a, b):
    """z3 Bool (or python bool) for equality of two bytes."""
    if isinstance(a, Part) and a.same(b):
        return True
    if isinstance(a, builtins.int) and isinstance(b, builtins.int):
        return a == b
    return byte_bv(a) == byte_bv(b)


def bytes_eq(xs, ys):
    if len(xs) != len(ys):
        return False
    conds = []
    # whole-element comparison first (keeps Int-valued elements out of bit-vectors)
    i = 0
    n = len(xs)
    while i < n:
        a, b = xs[i], ys[i]
        if isinstance(a, Part) and isinstance(b, Part) and a.i == 0 and b.i == 0 and a.n == b.n \
                and i + a.n <= n and all(isinstance(xs[i + k], Part) and xs[i + k].elem is a.elem and xs[i + k].i == k
                                         and isinstance(ys[i + k], Part) and ys[i + k].elem is b.elem and ys[i + k].i == k
                                         for k in range(a.n)):
            from .sarray import elem_eq
            c = elem_eq(a.elem, b.elem)
            if c is not None:
                if c is False:
                    return False
                if c is not True:
                    conds.append(c)
                i += a.n
                continue
        c = byte_eq(a, b)
        if c is False:
            return False
        if c is not True:
            conds.append(c)
        i += 1
    if not conds:
        return True
    return SBool(z3.And(conds) if len(conds) > 1 else conds[0])


def _conc_slice_bound(v, L, default):
    """Concretise a (possibly symbolic) slice bound for a buffer of concrete length L.
    Python clamps bounds: everything above L behaves like L, everything below -L like 0;
    the values in [-L, L] are case-split."""
    if v is None:
        return default
    if isinstance(v, SBV):
        v = v.to_sint("bv")
    if isinstance(v, SInt):
        ctx = cur()
        if ctx.decide((v > L).e):
            return L
        if ctx.decide((v < -L).e):
            return 0
        return v.__index__()
    return v


class SBytes:
    """Immutable byte string, concrete length, symbolic contents."""
    mutable = False

    def __init__(self, bs=()):
        if isinstance(bs, SBytes):
            bs = bs.bs
        elif isinstance(bs, (bytes, bytearray, memoryview)):
            bs = list(bytes(bs))
        elif isinstance(bs, builtins.int):
            bs = [0] * bs
        self.bs = list(bs)

    def __len__(self):
        return len(self.bs)

    def _slice(self, k):
        L = len(self.bs)
        if k.step is not None and not isinstance(k.step, builtins.int):
            raise OutsideModel("symbolic slice step")
        return slice(_conc_slice_bound(k.start, L, 0), _conc_slice_bound(k.stop, L, L), k.step)

    def __getitem__(self, k):
        if isinstance(k, slice):
            return SBytes(self.bs[self._slice(k)])
        if isinstance(k, (SInt, SBV)):
            k = k.__index__()
        b = self.bs[k]
        if isinstance(b, builtins.int):
            return b
        return SBV(byte_bv(b), real_np.uint8)

    def __iter__(self):
        for i in range(len(self.bs)):
            yield self[i]

    def __eq__(self, o):
        if isinstance(o, (bytes, bytearray)):
            o = SBytes(o)
        if not isinstance(o, SBytes):
            return False
        return bytes_eq(self.bs, o.bs)

    def __ne__(self, o):
        r = self.__eq__(o)
        if isinstance(r, bool):
            return not r
        return SBool(z3.Not(r.e))

    def __hash__(self):
        return 0

    def __add__(self, o):
        if isinstance(o, (bytes, bytearray)):
            o = SBytes(o)
        if not isinstance(o, SBytes):
            return NotImplemented
        return type(self)(self.bs + o.bs) if not self.mutable else SByteArray(self.bs + o.bs)

    def __radd__(self, o):
        if isinstance(o, (bytes, bytearray)):
            return SBytes(list(bytes(o)) + self.bs)
        return NotImplemented

    def __mul__(self, n):
        return SBytes(self.bs * builtins.int(n))

    def __bool__(self):
        return len(self.bs) > 0

    def is_concrete(self):
        return all(isinstance(b, builtins.int) for b in self.bs)

    def concrete(self):
        return bytes(self.bs)

    def decode(self, *a, **kw):
        if self.is_concrete():
            return self.concrete().decode(*a, **kw)
        raise OutsideModel("decode() of symbolic bytes")

    def word(self, off, n):
        """Little-endian unsigned integer of n bytes at off, as z3 BV(8n) (or python int)."""
        bs = self.bs[off:off + n]
        if all(isinstance(b, builtins.int) for b in bs):
            return builtins.int.from_bytes(bytes(bs), "little")
        if isinstance(bs[0], Part) and bs[0].i == 0 and bs[0].n == n and all(
                isinstance(b, Part) and b.elem is bs[0].elem and b.i == i for i, b in enumerate(bs)):
            return elem_bits(bs[0].elem)
        parts = [byte_bv(b) for b in reversed(bs)]
        return z3.simplify(z3.Concat(*parts)) if n > 1 else parts[0]

    def tobytes(self):
        return SBytes(self.bs)

    def __repr__(self):
        return f"{type(self).__name__}(len={len(self.bs)})"

    def startswith(self, p):
        r = self[:len(p)] == p
        return bool(r)


class SByteArray(SBytes):
    mutable = True

    def __init__(self, x=0):
        if isinstance(x, builtins.int):
            SBytes.__init__(self, [0] * x)
        else:
            SBytes.__init__(self, x)

    def __iadd__(self, o):
        if isinstance(o, (bytes, bytearray)):
            self.bs += list(bytes(o))
        elif isinstance(o, SBytes):
            self.bs += list(o.bs)
        else:
            return NotImplemented
        return self

    def __setitem__(self, k, v):
        if isinstance(k, slice):
            v = SBytes(v) if not isinstance(v, SBytes) else v
            self.bs[self._slice(k)] = v.bs
        else:
            self.bs[k] = v if isinstance(v, builtins.int) else byte_bv(v.e if isinstance(v, SBV) else v)

    def extend(self, o):
        self.__iadd__(o)

    __hash__ = None


class _BytesMeta(type):
    def __instancecheck__(cls, x):
        return isinstance(x, builtins.bytes) or (isinstance(x, SBytes) and not x.mutable)

    def __call__(cls, x=b"", *a):
        if isinstance(x, SBytes):
            return SBytes(x.bs)
        return builtins.bytes(x, *a)


class sym_bytes(metaclass=_BytesMeta):
    """Stand-in for the builtin ``bytes`` name inside repository modules."""


# --------------------------------------------------------------------- struct

_SIZES = {"I": 4, "Q": 8, "B": 1, "H": 2}


class StructProxy:
    """struct.pack/unpack/... for little-endian unsigned formats over SBytes."""
    error = real_struct.error

    def __getattr__(self, name):
        return getattr(real_struct, name)

    @staticmethod
    def _fmt(fmt):
        if not fmt or fmt[0] != "<" or any(c not in _SIZES for c in fmt[1:]):
            raise OutsideModel(f"struct format {fmt!r}")
        return [_SIZES[c] for c in fmt[1:]]

    @staticmethod
    def _enc(v, n):
        """value -> list of n bytes, raising struct.error when out of range like CPython."""
        hi = (1 << (8 * n)) - 1
        dt = real_np.dtype(f"<u{n}")
        if isinstance(v, SBV):
            v = v.to_sint("bv")
        if isinstance(v, SInt):
            if v.kind != "bv":
                raise OutsideModel("struct.pack of Int-backed value")
            ok = z3.And(v.e >= 0, v.e <= z3.BitVecVal(hi, W))
            if not cur().decide(ok):
                raise real_struct.error("argument out of range")
            el = SBV(z3.simplify(z3.Extract(8 * n - 1, 0, v.e)), dt)
            if el.is_concrete():
                return list(builtins.int(z3.simplify(el.e).as_long()).to_bytes(n, "little"))
            return [Part(el, i, n) for i in range(n)]
        if not isinstance(v, (builtins.int, real_np.integer)):
            raise real_struct.error("required argument is not an integer")
        v = builtins.int(v)
        if not 0 <= v <= hi:
            raise real_struct.error("argument out of range")
        return list(v.to_bytes(n, "little"))

    def pack(self, fmt, *vals):
        sizes = self._fmt(fmt)
        if len(sizes) != len(vals):
            raise real_struct.error(f"pack expected {len(sizes)} items for packing (got {len(vals)})")
        out = []
        for n, v in zip(sizes, vals):
            out += self._enc(v, n)
        if all(isinstance(b, builtins.int) for b in out):
            return bytes(out)
        return SBytes(out)

    def pack_into(self, fmt, buf, off, *vals):
        sizes = self._fmt(fmt)
        if isinstance(off, (SInt, SBV)):
            off = off.__index__()
        if len(sizes) != len(vals):
            raise real_struct.error("pack_into expected %d items" % len(sizes))
        if off < 0:
            off += len(buf)
            if off < 0:
                raise real_struct.error("offset out of range")
        if off + sum(sizes) > len(buf):
            raise real_struct.error("pack_into requires a buffer of at least %d bytes" % (off + sum(sizes)))
        data = []
        for n, v in zip(sizes, vals):
            data += self._enc(v, n)
        if isinstance(buf, SBytes):
            buf.bs[off:off + len(data)] = data
        else:
            buf[off:off + len(data)] = bytes(data)

    def unpack_from(self, fmt, buf, offset=0):
        sizes = self._fmt(fmt)
        total = sum(sizes)
        L = len(buf)
        if isinstance(offset, (SInt, SBV)):
            if isinstance(offset, SBV):
                offset = offset.to_sint("bv")
            ctx = cur()
            if ctx.decide((offset > L).e):
                offset = L + 1
            elif ctx.decide((offset < -L).e):
                offset = -L - 1
            else:
                offset = offset.__index__()
        if offset < 0:
            if offset + L < 0:
                raise real_struct.error(f"offset {offset} out of range for {L}-byte buffer")
            offset += L
        if L - offset < total:
            raise real_struct.error(f"unpack_from requires a buffer of at least {offset + total} bytes")
        if not isinstance(buf, SBytes):
            return real_struct.unpack_from(fmt, buf, offset)
        out = []
        for n in sizes:
            w = buf.word(offset, n)
            if isinstance(w, builtins.int):
                out.append(w)
            else:
                out.append(SInt(z3.simplify(z3.ZeroExt(W - 8 * n, w)), "bv", 8 * n))
            offset += n
        return tuple(out)

    def unpack(self, fmt, buf):
        sizes = self._fmt(fmt)
        if len(buf) != sum(sizes):
            raise real_struct.error(f"unpack requires a buffer of {sum(sizes)} bytes")
        return self.unpack_from(fmt, buf, 0)

    def iter_unpack(self, fmt, buf):
        n = sum(self._fmt(fmt))
        if len(buf) % n:
            raise real_struct.error(f"iterative unpacking requires a buffer of a multiple of {n} bytes")
        return iter([self.unpack_from(fmt, buf, off) for off in range(0, len(buf), n)])

    def calcsize(self, fmt):
        return sum(self._fmt(fmt))
