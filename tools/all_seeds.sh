#!/bin/bash
# usage: tools/all_seeds.sh [seed dir names...]   (default: every directory under seeded/)
# Runs the quick check of each seed's own property against a scratch worktree with the seed applied and records
# whether it is caught (exit 1 with a replay-confirmed VIOLATION).  /repo itself is never modified.
cd "$(dirname "$0")/.."
out=seeded/RESULTS.txt
[ $# -gt 0 ] && out=/tmp/RESULTS.partial.txt     # a partial run never replaces the committed full table
names=${@:-$(ls seeded | grep -E '^C[0-9]+(_[0-9]+)?$')}
: > $out.tmp
for n in $names; do
  id=${n%%_*}
  WT=/tmp/as_$n
  git -C /repo worktree remove --force $WT 2>/dev/null
  git -C /repo worktree add -q --detach $WT HEAD || { echo "$n worktree-failed" >> $out.tmp; continue; }
  if ! git -C $WT apply /verif/seeded/$n/patch.diff 2>/dev/null; then
    echo "$n patch-does-not-apply" >> $out.tmp; git -C /repo worktree remove --force $WT; continue
  fi
  s=$(date +%s)
  res=$(VERIF_REPO=$WT VERIF_CROSSCHECK=0 ./check $id --tier quick 2>&1); rc=$?
  lab=$(echo "$res" | grep -m1 "replay:" | cut -c1-160)
  case $rc in 1) v=caught;; 0) v=MISSED;; *) v="harness-error($rc)";; esac
  echo "$n $v $(( $(date +%s)-s ))s $lab" >> $out.tmp
  git -C /repo worktree remove --force $WT
done
mv $out.tmp $out
cat $out
