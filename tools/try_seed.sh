#!/bin/bash
# usage: tools/try_seed.sh <ID> <dir with patch.diff demo.py meta.json> <check ids...>
# Confirms the seed (tools/verify_seed.sh), then runs the given checks against a scratch worktree with the patch
# applied (VERIF_REPO), so /repo itself is never modified.
ID=$1; SRC=$2; shift 2
NAME=$(basename $(dirname $SRC))_$ID
tools/verify_seed.sh $ID $SRC $NAME | tail -1
WT=/tmp/ts_$NAME
git -C /repo worktree remove --force $WT 2>/dev/null
git -C /repo worktree add -q --detach $WT HEAD || exit 9
git -C $WT apply $SRC/patch.diff || { echo "patch does not apply"; git -C /repo worktree remove --force $WT; exit 8; }
for c in "$@"; do
  out=$(VERIF_REPO=$WT VERIF_CROSSCHECK=0 ./check $c 2>&1)
  echo "$out" | grep -E "^\[|VIOLATION|replay:|HARNESS" | head -3 | cut -c1-260
done
git -C /repo worktree remove --force $WT
