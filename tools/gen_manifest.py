#!/usr/bin/env python3
"""Regenerate MANIFEST.json from the harness modules present under vf/harness."""
import importlib, json, os, sys
HERE = os.path.dirname(os.path.dirname(os.path.abspath(__file__)))
sys.path.insert(0, HERE)
props = [json.loads(l) for l in open(os.path.join(HERE, "properties.jsonl"))]
NA = json.load(open(os.path.join(HERE, "tools", "not_applicable.json")))
checks = []
for p in props:
    pid = p["id"]
    path = os.path.join(HERE, "vf", "harness", pid.lower() + ".py")
    if not os.path.exists(path) or pid in NA:
        continue
    src = open(path).read()
    ns = {}
    # harness modules keep their metadata as plain literals at the top
    import ast
    tree = ast.parse(src)
    meta = {}
    for node in tree.body:
        if isinstance(node, ast.Assign) and len(node.targets) == 1 and isinstance(node.targets[0], ast.Name):
            n = node.targets[0].id
            if n in ("EXPLANATION", "BOUNDS", "OUTSIDE", "STUBS", "ASSUMPTIONS", "FUNCTIONS", "TECHNIQUE", "DESIGN_REF"):
                meta[n] = ast.literal_eval(node.value)
    checks.append({
        "property_id": pid,
        "quick_cmd": f"./check {pid} --tier quick",
        "thorough_cmd": f"./check {pid} --tier thorough",
        "evidence_file": f"evidence/{pid}.json",
        "replay_cmd_template": f"./check {pid} --replay {{path}}",
        "engine": "vf (symbolic execution of the real Python source, z3)",
        "level_claimed": {
            "category": "other",
            "text": ("Bounded solver-based checking of the real code: the repository's functions run unmodified on z3 terms; "
                     "every feasible path is explored by solver-driven forking and each obligation is discharged by an unsat "
                     "answer (holds for every value inside the stated bound) or refuted by a model that is replayed on the "
                     "unpatched code before it is reported. " + meta.get("EXPLANATION", "") +
                     " Bounds (quick): " + str(meta.get("BOUNDS", {}).get("quick", "")) +
                     " Outside the claim: " + "; ".join(meta.get("OUTSIDE", []))),
            "design_ref": "DESIGN.md section 5 " + pid,
        },
        "level_note": "Trusted: z3 5.1, CPython, real NumPy for index plumbing, and the stand-ins: " + "; ".join(meta.get("STUBS", [])) +
                      ". Assumptions: " + "; ".join(meta.get("ASSUMPTIONS", [])),
        "technique": meta.get("TECHNIQUE", "symbolic execution of the real Python functions by operator overloading; z3 decides every branch and obligation within enumerated shape/length bounds; counterexamples replayed"),
    })
m = {
    "version": 1,
    "setup_cmd": "./setup.sh",
    "hooks": {"guard": "NEUROGLANCER_SCRIPTS_VERIF",
              "enable": "no source hooks are needed: checks substitute library/builtin names in module namespaces from outside (VERIF_REPO selects the tree)",
              "baseline_off_cmd": "cd /repo && /venv/bin/python -m pytest -ra -q -p no:cacheprovider --timeout=900 --continue-on-collection-errors",
              "source_commits": [], "add_only": True},
    "engines": [{"name": "vf", "path": "vf/", "serves_properties": [c["property_id"] for c in checks],
                 "kind_free_text": "replay-based DFS symbolic executor for Python (operator overloading, NumPy duck arrays, model file system) over z3"}],
    "checks": checks,
    "notes": "Fix commits in /repo are listed in known_findings.json (status fixed). Exit 3 of a check = harness error (reserved).",
    "not_applicable": [{"property_id": k, "reason": v} for k, v in NA.items()] +
                      [{"property_id": p["id"], "reason": "check not built yet in this session (planned, see DESIGN.md section 5)"}
                       for p in props if p["id"] not in NA and not os.path.exists(os.path.join(HERE, "vf", "harness", p["id"].lower() + ".py"))],
}
json.dump(m, open(os.path.join(HERE, "MANIFEST.json"), "w"), indent=1)
print("checks:", [c["property_id"] for c in checks])
