#!/bin/bash
# usage: tools/verify_seed.sh <ID> <dir with patch.diff demo.py meta.json> [name]
# Confirms a seeded change in a scratch worktree of /repo HEAD: suite unchanged, demo fails with / passes without.
ID=$1; SRC=$2; NAME=${3:-$ID}
WT=/tmp/vs_$NAME
git -C /repo worktree remove --force $WT 2>/dev/null
git -C /repo worktree add -q --detach $WT HEAD || exit 9
cd $WT
base=$(PYTHONPATH=$WT/src timeout 900 /venv/bin/python -m pytest -q -p no:cacheprovider --timeout=900 2>&1 | tail -1)
PYTHONPATH=$WT/src timeout 120 /venv/bin/python $SRC/demo.py >/tmp/vs_$NAME.clean.log 2>&1; rc_clean=$?
if ! git apply $SRC/patch.diff 2>/tmp/vs_$NAME.apply.log; then echo "$NAME: PATCH DOES NOT APPLY"; cat /tmp/vs_$NAME.apply.log; cd /; git -C /repo worktree remove --force $WT; exit 8; fi
with=$(PYTHONPATH=$WT/src timeout 900 /venv/bin/python -m pytest -q -p no:cacheprovider --timeout=900 2>&1 | tail -1)
PYTHONPATH=$WT/src timeout 120 /venv/bin/python $SRC/demo.py >/tmp/vs_$NAME.seeded.log 2>&1; rc_seeded=$?
cd /; git -C /repo worktree remove --force $WT
echo "$NAME: suite base=[$base] with=[$with] demo clean rc=$rc_clean seeded rc=$rc_seeded"
bp=$(echo "$base" | grep -o '[0-9]* passed'); wp=$(echo "$with" | grep -o '[0-9]* passed')
if [ "$bp" == "$wp" ] && [ $rc_clean -eq 0 ] && [ $rc_seeded -ne 0 ]; then echo "$NAME: CONFIRMED"; exit 0; else echo "$NAME: NOT CONFIRMED"; tail -5 /tmp/vs_$NAME.clean.log; exit 1; fi
