#!/bin/bash
# usage: tools/mutant.sh "<check ids>" <file under /repo> <sed expression>   -- applies a one-line mutation in a scratch worktree
CHECKS=$1; FILE=$2; SED=$3
WT=/tmp/mut_$$
git -C /repo worktree add -q --detach $WT HEAD || exit 9
sed -i "$SED" $WT/$FILE
if git -C $WT diff --quiet; then echo "MUTATION DID NOT CHANGE ANYTHING"; git -C /repo worktree remove --force $WT; exit 7; fi
git -C $WT diff | grep '^[-+][^-+]' | head -4
for c in $CHECKS; do
  VERIF_REPO=$WT VERIF_CROSSCHECK=0 ./check $c 2>&1 | grep -E "^\[|VIOLATION|replay:|HARNESS" | head -3 | cut -c1-220
done
git -C /repo worktree remove --force $WT
