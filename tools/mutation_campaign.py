#!/usr/bin/env python3
"""Random single-token mutants of the package, filtered by the repository's own test-suite, run against the quick checks
of the properties anchored in the mutated file.  Survivors (tests pass, every mapped check passes) are listed for
inspection: each is either an equivalent mutant or a gap in the checks.

usage: tools/mutation_campaign.py <n mutants> <seed> [file substring]
Writes /tmp/mutation_campaign_<seed>.txt ; /repo is never modified (scratch worktrees under /tmp)."""
import os
import random
import re
import subprocess
import sys

REPO = "/repo"
SRC = "src/neuroglancer_scripts"
FILE_CHECKS = {
    "_compressed_segmentation.py": ["C02", "C10"],
    "chunk_encoding.py": ["C03", "C10"],
    "_jpeg.py": ["C03", "C10"],
    "data_types.py": ["C11", "C01"],
    "downscaling.py": ["C07", "C06"],
    "dyadic_pyramid.py": ["C08", "C06"],
    "file_accessor.py": ["C12", "C18"],
    "http_accessor.py": ["C14"],
    "mesh.py": ["C17"],
    "precomputed_io.py": ["C03"],
    "sharded_base.py": ["C09", "C04", "C05", "C14"],
    "sharded_file_accessor.py": ["C04", "C05", "C18", "C14"],
    "sharded_http_accessor.py": ["C14"],
    "transform.py": ["C16"],
    "volume_reader.py": ["C01", "C16"],
    "utils.py": ["C20", "C09"],
    "accessor.py": ["C14", "C12"],
    "scripts/scale_stats.py": ["C20"],
    "scripts/slices_to_precomputed.py": ["C15"],
    "scripts/convert_chunks.py": ["C13"],
    "scripts/generate_scales_info.py": ["C08"],
    "scripts/compute_scales.py": ["C19", "C06"],
    "scripts/volume_to_precomputed_pyramid.py": ["C19"],
    "scripts/volume_to_precomputed.py": ["C19"],
    "scripts/mesh_to_precomputed.py": ["C17"],
    "scripts/link_mesh_fragments.py": ["C17"],
}
SWAPS = [(r" < ", " <= "), (r" <= ", " < "), (r" > ", " >= "), (r" >= ", " > "), (r" == ", " != "), (r" != ", " == "),
         (r" \+ 1\b", " + 2"), (r" - 1\b", " - 2"), (r" \+ 1\b", ""), (r" - 1\b", ""), (r" // ", " / "), (r" and ", " or "),
         (r" or ", " and "), (r"\bmin\(", "max("), (r"\bmax\(", "min("), (r" \+ ", " - "), (r" - ", " + "), (r" \* ", " + "),
         (r"\bTrue\b", "False"), (r"\bFalse\b", "True"), (r" >> ", " << "), (r" << ", " >> "), (r"\[0\]", "[1]"), (r"\[1\]", "[0]"),
         (r"\[2\]", "[0]"), (r" not ", " "), (r"\b0\b", "1"), (r"\b1\b", "0"), (r"\b2\b", "3")]


def sh(cmd, timeout=None):
    """run a shell command in its own process group; on timeout the whole group is killed (a mutant may loop for ever)"""
    import signal
    p = subprocess.Popen(cmd, shell=True, stdout=subprocess.PIPE, stderr=subprocess.PIPE, text=True, start_new_session=True)
    try:
        out, err = p.communicate(timeout=timeout)
    except subprocess.TimeoutExpired:
        os.killpg(p.pid, signal.SIGKILL)
        p.communicate()
        raise
    return subprocess.CompletedProcess(cmd, p.returncode, out, err)


def candidates(only):
    out = []
    for rel, checks in FILE_CHECKS.items():
        if only and only not in rel:
            continue
        path = os.path.join(REPO, SRC, rel)
        lines = open(path).read().split("\n")
        in_doc = False
        for i, ln in enumerate(lines):
            st = ln.strip()
            if st.count('"""') % 2 == 1:
                in_doc = not in_doc
                continue
            if in_doc or not st or st.startswith(("#", "import ", "from ", "logger.", "parser.", "help=", '"', "'", "raise ", "assert ")):
                continue
            if "logger." in st or "add_argument" in st or st.startswith(("f\"", "f'")):
                continue
            for k, (pat, rep) in enumerate(SWAPS):
                for m in re.finditer(pat, ln):
                    if ln[:m.start()].count('"') % 2 or ln[:m.start()].count("'") % 2:
                        continue          # inside a string literal
                    out.append((rel, i, m.start(), m.end(), rep, checks))
    return out


def main():
    n, seed = int(sys.argv[1]), int(sys.argv[2])
    only = sys.argv[3] if len(sys.argv) > 3 else None
    rnd = random.Random(seed)
    cands = candidates(only)
    rnd.shuffle(cands)
    report = open(f"/tmp/mutation_campaign_{seed}.txt", "w")
    done = 0
    stats = dict(tests_kill=0, caught=0, survived=0, broken=0)
    for rel, i, a, b, rep, checks in cands:
        if done >= n:
            break
        wt = f"/tmp/mc_{seed}_{done}"
        sh(f"git -C {REPO} worktree remove --force {wt}")
        if sh(f"git -C {REPO} worktree add -q --detach {wt} HEAD").returncode:
            continue
        try:
            path = os.path.join(wt, SRC, rel)
            lines = open(path).read().split("\n")
            old = lines[i]
            lines[i] = old[:a] + rep + old[b:]
            open(path, "w").write("\n".join(lines))
            if sh(f"/venv/bin/python -m py_compile {path}").returncode:
                continue
            done += 1
            t = sh(f"cd {wt} && PYTHONPATH={wt}/src /venv/bin/python -m pytest -q -x -p no:cacheprovider --timeout=300 "
                   f"--deselect unit_tests/test_file_accessor.py::test_file_accessor_nonexistent_directory "
                   f"--deselect unit_tests/test_file_accessor.py::test_file_accessor_errors "
                   f"--deselect script_tests/test_scripts.py::test_slice_conversion --deselect script_tests/test_scripts.py::test_mesh_conversion "
                   f"--deselect script_tests/test_scripts.py::test_mesh_conversion_with_transform 2>&1 | tail -1", timeout=900)
            desc = f"{rel}:{i + 1}: {old.strip()[:90]}  ->  {lines[i].strip()[:90]}"
            if re.search(r"\b\d+ (failed|error)", t.stdout) or "passed" not in t.stdout:
                stats["tests_kill"] += 1
                report.write(f"TESTS   {desc}   [{t.stdout.strip()[-80:]}]\n")
                report.flush()
                continue
            verdicts = []
            for c in checks:
                r = sh(f"cd /verif && VERIF_REPO={wt} VERIF_CROSSCHECK=0 VERIF_JOBS=8 ./check {c} --tier quick", timeout=3000)
                verdicts.append((c, r.returncode))
                if r.returncode == 1:
                    break
            if any(rc == 1 for _, rc in verdicts):
                stats["caught"] += 1
                report.write(f"CAUGHT  {desc}   {verdicts}\n")
            elif any(rc not in (0, 1) for _, rc in verdicts):
                stats["broken"] += 1
                report.write(f"HARNESS {desc}   {verdicts}\n")
            else:
                stats["survived"] += 1
                report.write(f"SURVIVE {desc}   {verdicts}\n")
            report.flush()
        except subprocess.TimeoutExpired:
            report.write(f"TIMEOUT {rel}:{i + 1}\n")
        finally:
            sh(f"git -C {REPO} worktree remove --force {wt}")
            sh(f"rm -rf /tmp/verif_out/{os.path.basename(wt)}")
    report.write(f"SUMMARY {stats}\n")
    report.close()
    print(stats)


if __name__ == "__main__":
    main()
